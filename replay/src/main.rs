// Native replay of SMT counterexamples through the crate's public API.
// exit 1 = the real code disagrees with the specification on these values
// (violation reproduced), exit 0 = agrees, exit 2 = usage.
use cfb::CompoundFile;
use std::io::Cursor;
use std::time::{Duration, SystemTime, UNIX_EPOCH};

const EPOCH_TS: i128 = 116444736000000000;

fn ts_of(t: SystemTime) -> Option<SystemTime> {
    // set on a storage, read back: goes through Timestamp::from_system_time and to_system_time
    let mut comp = CompoundFile::create(Cursor::new(Vec::new())).ok()?;
    comp.create_storage("/s").ok()?;
    comp.set_created_time("/s", t).ok()?;
    Some(comp.entry("/s").ok()?.created())
}

fn main() {
    let a: Vec<String> = std::env::args().collect();
    if a.len() >= 4 && a[1] == "ts-from" {
        let s: i64 = a[2].parse().unwrap();
        let n: u32 = a[3].parse().unwrap();
        let st = if s >= 0 {
            UNIX_EPOCH.checked_add(Duration::new(s as u64, n))
        } else {
            UNIX_EPOCH
                .checked_sub(Duration::new(s.unsigned_abs(), 0))
                .and_then(|t| t.checked_add(Duration::new(0, n)))
        };
        let st = match st { Some(x) => x, None => { println!("not representable on this platform"); std::process::exit(0) } };
        // specification: floor toward the epoch at 100 ns, saturating to [0, u64::MAX]
        let ns: i128 = s as i128 * 1_000_000_000 + n as i128;
        let ticks = if ns >= 0 { ns / 100 } else { -((-ns) / 100) };
        let want = (EPOCH_TS + ticks).clamp(0, u64::MAX as i128);
        let got = ts_of(st).expect("api");
        // convert read-back time to ticks exactly
        let got_ticks: i128 = match got.duration_since(UNIX_EPOCH) {
            Ok(d) => EPOCH_TS + (d.as_nanos() as i128) / 100,
            Err(e) => EPOCH_TS - (e.duration().as_nanos() as i128) / 100,
        };
        println!("input=({}, {}) want_ticks={} got_ticks={}", s, n, want, got_ticks);
        std::process::exit(if got_ticks != want { 1 } else { 0 });
    }
    if a.len() >= 3 && a[1] == "ts-to" {
        // round trip of a raw timestamp cannot be driven through the public API
        // without writing bytes; build a file image and patch the field.
        let t: u64 = a[2].parse().unwrap();
        let mut comp = CompoundFile::create_with_version(cfb::Version::V3, Cursor::new(Vec::new())).unwrap();
        comp.create_storage("/s").unwrap();
        comp.flush().unwrap();
        let mut bytes = comp.into_inner().into_inner();
        // directory sector is sector 1 (offset 1024); entry 1 at +128; creation time at +100
        let off = 1024 + 128 + 100;
        bytes[off..off + 8].copy_from_slice(&t.to_le_bytes());
        let mut comp = CompoundFile::open(Cursor::new(bytes)).unwrap();
        let st = comp.entry("/s").unwrap().created();
        comp.set_modified_time("/s", st).unwrap();
        let st2 = comp.entry("/s").unwrap().modified();
        comp.flush().unwrap();
        let bytes = comp.into_inner().into_inner();
        let back = u64::from_le_bytes([bytes[off+8],bytes[off+9],bytes[off+10],bytes[off+11],bytes[off+12],bytes[off+13],bytes[off+14],bytes[off+15]]);
        println!("t={} roundtrip={} st={:?} st2={:?}", t, back, st, st2);
        std::process::exit(if back != t { 1 } else { 0 });
    }
    eprintln!("usage: verif-replay ts-from <secs> <nanos> | ts-to <timestamp>");
    std::process::exit(2);
}
