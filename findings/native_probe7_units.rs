// C09: listings must be in CFB order: shorter (in UTF-16 units) first, then by upper-cased
// UTF-16 code units.  A supplementary-plane character is two units 0xD800..0xDFFF and therefore
// sorts BEFORE a BMP character >= U+E000 (private use, CJK compatibility, fullwidth forms),
// although its code point is larger.
use std::io::Cursor;

#[test]
fn listing_is_in_code_unit_order() {
    let mut c = cfb::CompoundFile::create(Cursor::new(Vec::new())).unwrap();
    let emoji = "\u{1F600}"; // units D83D DE00
    let fullwidth = "\u{FF41}\u{FF42}"; // units FF41 FF42 (upper-cased FF21 FF22)
    c.create_stream(format!("/{}", fullwidth)).unwrap();
    c.create_stream(format!("/{}", emoji)).unwrap();
    let names: Vec<String> = c.read_root_storage().map(|e| e.name().to_string()).collect();
    let mut by_units = names.clone();
    by_units.sort_by(|a, b| {
        let ua: Vec<u16> = a.to_uppercase().encode_utf16().collect();
        let ub: Vec<u16> = b.to_uppercase().encode_utf16().collect();
        ua.len().cmp(&ub.len()).then(ua.cmp(&ub))
    });
    assert_eq!(names, by_units, "listing order is not the CFB order by UTF-16 code units");
    assert_eq!(names[0], emoji);
}
