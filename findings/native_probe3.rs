use cfb::CompoundFile;
use std::cell::RefCell;
use std::io::{self, Cursor, Read, Seek, SeekFrom, Write};
use std::rc::Rc;

#[derive(Default)]
struct Ctl { fail_writes: bool, fail_reads: bool }
struct F { c: Rc<RefCell<Cursor<Vec<u8>>>>, ctl: Rc<RefCell<Ctl>> }
impl Read for F { fn read(&mut self, b: &mut [u8]) -> io::Result<usize> { if self.ctl.borrow().fail_reads { return Err(io::Error::new(io::ErrorKind::Other, "r")); } self.c.borrow_mut().read(b) } }
impl Write for F { fn write(&mut self, b: &[u8]) -> io::Result<usize> { if self.ctl.borrow().fail_writes { return Err(io::Error::new(io::ErrorKind::Other, "w")); } self.c.borrow_mut().write(b) } fn flush(&mut self) -> io::Result<()> { Ok(()) } }
impl Seek for F { fn seek(&mut self, p: SeekFrom) -> io::Result<u64> { self.c.borrow_mut().seek(p) } }

#[test]
fn c13_flush_after_failed_flush() {
    let c = Rc::new(RefCell::new(Cursor::new(Vec::new())));
    let ctl = Rc::new(RefCell::new(Ctl::default()));
    let mut comp = CompoundFile::create(F { c: c.clone(), ctl: ctl.clone() }).unwrap();
    let mut s = comp.create_stream("/a").unwrap();
    s.write_all(b"hello world").unwrap();
    ctl.borrow_mut().fail_writes = true;
    assert!(s.flush().is_err());
    ctl.borrow_mut().fail_writes = false;
    s.flush().expect("second flush");
    drop(s);
    let mut v = Vec::new();
    comp.open_stream("/a").unwrap().read_to_end(&mut v).unwrap();
    assert_eq!(v, b"hello world", "flush returned Ok but the data is not in the file");
}

#[test]
fn c12_retry_after_failed_refill() {
    let c = Rc::new(RefCell::new(Cursor::new(Vec::new())));
    let ctl = Rc::new(RefCell::new(Ctl::default()));
    let mut comp = cfb::OpenOptions::new().max_buffer_size(1024).create_with(F { c: c.clone(), ctl: ctl.clone() }).unwrap();
    let data: Vec<u8> = (0..3000u32).map(|i| (i % 251) as u8).collect();
    comp.create_stream("/a").unwrap().write_all(&data).unwrap();
    let mut s = comp.open_stream("/a").unwrap();
    let mut buf = vec![0u8; 1024];
    s.read_exact(&mut buf).unwrap();
    assert_eq!(&buf[..], &data[..1024]);
    ctl.borrow_mut().fail_reads = true;
    let mut b2 = vec![0u8; 100];
    assert!(s.read(&mut b2).is_err());
    ctl.borrow_mut().fail_reads = false;
    let pos = s.stream_position().unwrap();
    let n = s.read(&mut b2).unwrap();
    assert_eq!(&b2[..n], &data[pos as usize..pos as usize + n], "retry after failed read returned wrong bytes (pos {})", pos);
}
