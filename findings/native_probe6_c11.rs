// C11 (fixed by a041510): mutating calls on files whose directory entries name start sectors
// outside the MiniFAT panicked (index out of bounds in MiniAllocator::free_mini_chain).
// Copy to /repo/tests/ and run: cargo test --offline --test native_probe6_c11 -- --nocapture
use std::io::{Cursor, Read, Seek, SeekFrom, Write};

fn image(len: usize) -> Vec<u8> {
    let mut c = cfb::CompoundFile::create_with_version(cfb::Version::V3, Cursor::new(Vec::new())).unwrap();
    let mut s = c.create_stream("/s").unwrap();
    s.write_all(&vec![7u8; len]).unwrap();
    drop(s);
    c.flush().unwrap();
    c.into_inner().into_inner()
}

fn dir_sector(img: &[u8]) -> usize {
    let d = 512 * (1 + u32::from_le_bytes([img[48], img[49], img[50], img[51]]) as usize);
    assert_eq!(&img[d + 128..d + 130], &[b's', 0]);
    d
}

fn try_ops(img: Vec<u8>, what: &str) {
    for op in 0..5 {
        let r = std::panic::catch_unwind(|| {
            let mut c = match cfb::CompoundFile::open(Cursor::new(img.clone())) { Ok(c) => c, Err(_) => return "open-err" };
            match op {
                0 => { if c.remove_stream("/s").is_ok() { "ok" } else { "err" } }
                1 => { let mut s = match c.open_stream("/s") { Ok(s) => s, Err(_) => return "open_stream-err" }; if s.set_len(0).is_ok() { "ok" } else { "err" } }
                2 => { let mut s = match c.open_stream("/s") { Ok(s) => s, Err(_) => return "open_stream-err" }; if s.set_len(200).is_ok() { "ok" } else { "err" } }
                3 => { let mut s = match c.open_stream("/s") { Ok(s) => s, Err(_) => return "open_stream-err" }; if s.set_len(5000).is_ok() { "ok" } else { "err" } }
                _ => { match c.create_stream("/s") { Ok(_) => "ok", Err(_) => "err" } }
            }
        });
        println!("{} op{} -> {:?}", what, op, r.as_ref().map_err(|_| "PANIC"));
        assert!(r.is_ok(), "C11: {} op{} panicked on a file that open() accepted", what, op);
    }
}

#[test]
fn probe() {
    // small stream, start sector out of the MiniFAT's range
    let mut img = image(100);
    let d = dir_sector(&img);
    // entry 1 = "s": start sector at +116
    img[d + 128 + 116..d + 128 + 120].copy_from_slice(&1000u32.to_le_bytes());
    try_ops(img, "mini start=1000");
    let mut img = image(100);
    img[d + 128 + 116..d + 128 + 120].copy_from_slice(&1u32.to_le_bytes()); // second mini sector of the chain
    try_ops(img, "mini start=1 (inside chain)");
    let mut img = image(100);
    img[d + 128 + 116..d + 128 + 120].copy_from_slice(&5u32.to_le_bytes()); // free mini sector
    try_ops(img, "mini start=5 (free/out)");
    // big stream, start sector out of range / free
    let mut img = image(5000);
    let d = dir_sector(&img);
    img[d + 128 + 116..d + 128 + 120].copy_from_slice(&100000u32.to_le_bytes());
    try_ops(img, "big start=100000");
    let mut img = image(5000);
    img[d + 128 + 116..d + 128 + 120].copy_from_slice(&0u32.to_le_bytes()); // FAT sector
    try_ops(img, "big start=0 (fat sector)");
    // size says small but chain is in FAT (size corrupted 5000 -> 100)
    let mut img = image(5000);
    img[d + 128 + 120..d + 128 + 128].copy_from_slice(&100u64.to_le_bytes());
    try_ops(img, "big with len=100");
    let mut img = image(100);
    img[d + 128 + 120..d + 128 + 128].copy_from_slice(&5000u64.to_le_bytes());
    try_ops(img, "small with len=5000");
    // root entry: mini stream start corrupted
    let mut img = image(100);
    img[d + 116..d + 120].copy_from_slice(&100000u32.to_le_bytes());
    try_ops(img, "root start=100000");
    let mut img = image(100);
    img[d + 120..d + 128].copy_from_slice(&0u64.to_le_bytes());
    try_ops(img, "root len=0");
}
