use cfb::CompoundFile;
use std::io::{Cursor, Write};
use std::sync::atomic::{AtomicBool, AtomicUsize, Ordering};
use std::time::{Duration, Instant};

#[test]
fn c14_walk_vs_writer_no_deadlock() {
    let mut comp = CompoundFile::create(Cursor::new(Vec::new())).unwrap();
    for i in 0..40 { comp.create_storage(format!("/d{}", i)).unwrap(); comp.create_stream(format!("/d{}/s", i)).unwrap(); }
    let mut stream = comp.create_stream("/w").unwrap();
    let comp = &comp;
    let stop = AtomicBool::new(false);
    let progress = AtomicUsize::new(0);
    // watchdog: exits the process if nothing moves for 2 s
    std::thread::scope(|sc| {
        for _ in 0..4 {
            sc.spawn(|| { while !stop.load(Ordering::Relaxed) { let n = comp.walk().count(); assert!(n > 40); progress.fetch_add(1, Ordering::Relaxed); } });
        }
        sc.spawn(|| {
            let t0 = Instant::now();
            let mut last = 0; let mut stuck = 0;
            while t0.elapsed() < Duration::from_secs(6) {
                std::thread::sleep(Duration::from_millis(500));
                let p = progress.load(Ordering::Relaxed);
                if p == last { stuck += 1; } else { stuck = 0; }
                last = p;
                if stuck >= 4 { eprintln!("DEADLOCK: no progress for 2 s after {} ops", p); std::process::exit(3); }
            }
            stop.store(true, Ordering::Relaxed);
        });
        while !stop.load(Ordering::Relaxed) { stream.write_all(&[1u8; 10]).unwrap(); stream.flush().unwrap(); progress.fetch_add(1, Ordering::Relaxed); }
    });
}
