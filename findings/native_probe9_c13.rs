// Native reproduction of the C13 defects fixed by /repo commits 1d43759, fae0143, d759d80:
// a fault of the backing store at the k-th seek/write during Stream::flush, then flush retried on the
// same handle; when the retry says Ok the file bytes must reopen and hold the data (all k, 8 workloads).
// Drop into tests/ of the crate: fails before the fixes (k=131,132,136..139 of the first small stream;
// 94 positions of 'append a 60' with only d759d80 applied), passes after them.
use std::io::{self, Cursor, Read, Seek, SeekFrom, Write};
use std::sync::{Arc, Mutex};

#[derive(Clone)]
struct Shared { data: Arc<Mutex<Cursor<Vec<u8>>>>, ctl: Arc<Mutex<(bool, usize, usize)>> } // armed, at, calls
impl Shared {
    fn fault(&self) -> bool {
        let mut c = self.ctl.lock().unwrap();
        if !c.0 { return false; }
        let k = c.2; c.2 += 1;
        k == c.1
    }
}
impl Read for Shared { fn read(&mut self, b: &mut [u8]) -> io::Result<usize> { self.data.lock().unwrap().read(b) } }
impl Write for Shared {
    fn write(&mut self, b: &[u8]) -> io::Result<usize> { if self.fault() { return Err(io::Error::new(io::ErrorKind::Other, "injected")); } self.data.lock().unwrap().write(b) }
    fn flush(&mut self) -> io::Result<()> { Ok(()) }
}
impl Seek for Shared { fn seek(&mut self, p: SeekFrom) -> io::Result<u64> { if self.fault() { return Err(io::Error::new(io::ErrorKind::Other, "injected")); } self.data.lock().unwrap().seek(p) } }

// First small stream of a fresh file: a fault at the k-th backend write/seek during the flush,
// then a retried flush that reports Ok: the file bytes must reopen and hold the data.
#[test]
fn first_small_stream_flush_retried_after_fault() {
    let mut bad = Vec::new();
    for k in 0..600 {
        let sh = Shared { data: Arc::new(Mutex::new(Cursor::new(Vec::new()))), ctl: Arc::new(Mutex::new((false, 0, 0))) };
        let mut c = cfb::CompoundFile::create_with_version(cfb::Version::V3, sh.clone()).unwrap();
        let mut s = c.create_stream("/s").unwrap();
        s.write_all(&[7u8; 100]).unwrap();
        *sh.ctl.lock().unwrap() = (true, k, 0);
        let r1 = s.flush();
        *sh.ctl.lock().unwrap() = (false, 0, 0);
        if r1.is_ok() { continue; }
        let r2 = s.flush();
        if r2.is_err() { continue; }
        drop(s);
        let bytes = sh.data.lock().unwrap().get_ref().clone();
        match cfb::CompoundFile::open(Cursor::new(bytes)) {
            Ok(mut c2) => {
                let mut v = Vec::new();
                match c2.open_stream("/s").and_then(|mut s| s.read_to_end(&mut v)) {
                    Ok(_) if v == vec![7u8; 100] => {}
                    other => bad.push(format!("k={} reopened but stream differs: {:?} len {}", k, other.is_ok(), v.len())),
                }
            }
            Err(e) => bad.push(format!("k={} retried flush said Ok but the file does not reopen: {}", k, e)),
        }
    }
    assert!(bad.is_empty(), "{:#?}", bad);
}




fn setup() -> (Shared, cfb::CompoundFile<Shared>) {
    let sh = Shared { data: Arc::new(Mutex::new(Cursor::new(Vec::new()))), ctl: Arc::new(Mutex::new((false, 0, 0))) };
    let mut c = cfb::CompoundFile::create_with_version(cfb::Version::V3, sh.clone()).unwrap();
    c.create_stream("/a").unwrap().write_all(&[1u8; 100]).unwrap();
    c.create_stream("/b").unwrap().write_all(&[2u8; 5000]).unwrap();
    c.create_stream("/c").unwrap().write_all(&[3u8; 300]).unwrap();
    (sh, c)
}
fn dump(bytes: Vec<u8>) -> Result<Vec<(String, Vec<u8>)>, String> {
    let mut c = cfb::CompoundFile::open(Cursor::new(bytes)).map_err(|e| format!("does not reopen: {}", e))?;
    let paths: Vec<_> = c.walk().filter(|e| e.is_stream()).map(|e| e.path().to_path_buf()).collect();
    let mut out = Vec::new();
    for p in paths {
        let mut v = Vec::new();
        c.open_stream(&p).and_then(|mut s| s.read_to_end(&mut v)).map_err(|e| format!("{:?} unreadable: {}", p, e))?;
        out.push((p.to_string_lossy().to_string(), v));
    }
    Ok(out)
}


fn sweep_flush(name: &str, expect: &[(&str, Vec<u8>)], prep: impl Fn(&mut cfb::CompoundFile<Shared>) -> io::Result<cfb::Stream<Shared>>) -> Vec<String> {
    let mut bad = Vec::new();
    for k in 0..900 {
        let (sh, mut c) = setup();
        let mut s = prep(&mut c).unwrap();
        *sh.ctl.lock().unwrap() = (true, k, 0);
        let r1 = s.flush();
        let used = sh.ctl.lock().unwrap().2;
        *sh.ctl.lock().unwrap() = (false, 0, 0);
        if r1.is_ok() { if k >= used { break; } continue; }
        let r2 = s.flush();
        if r2.is_err() { continue; }
        drop(s);
        let bytes = sh.data.lock().unwrap().get_ref().clone();
        match dump(bytes) {
            Ok(d) => {
                for (p, want) in expect {
                    match d.iter().find(|(q, _)| q == p) {
                        Some((_, got)) if got == want => {}
                        Some((_, got)) => bad.push(format!("{} k={}: {} differs after reopen (len {} vs {})", name, k, p, got.len(), want.len())),
                        None => bad.push(format!("{} k={}: {} missing after reopen", name, k, p)),
                    }
                }
            }
            Err(e) => bad.push(format!("{} k={}: retried flush said Ok but {}", name, k, e)),
        }
    }
    bad
}

#[test]
fn retried_flush_is_durable() {
    let a = vec![1u8; 100]; let b = vec![2u8; 5000]; let c3 = vec![3u8; 300];
    let mut bad = Vec::new();
    bad.extend(sweep_flush("append a 60", &[("/a", { let mut v = a.clone(); v.extend_from_slice(&[8u8; 60]); v }), ("/b", b.clone()), ("/c", c3.clone())],
        |c| { let mut s = c.open_stream("/a")?; s.seek(SeekFrom::End(0))?; s.write_all(&[8u8; 60])?; Ok(s) }));
    bad.extend(sweep_flush("a to 4200", &[("/a", vec![8u8; 4200]), ("/b", b.clone()), ("/c", c3.clone())],
        |c| { let mut s = c.open_stream("/a")?; s.write_all(&[8u8; 4200])?; Ok(s) }));
    bad.extend(sweep_flush("append b 3000", &[("/a", a.clone()), ("/b", { let mut v = b.clone(); v.extend_from_slice(&[8u8; 3000]); v }), ("/c", c3.clone())],
        |c| { let mut s = c.open_stream("/b")?; s.seek(SeekFrom::End(0))?; s.write_all(&[8u8; 3000])?; Ok(s) }));
    bad.extend(sweep_flush("overwrite mid c", &[("/a", a.clone()), ("/b", b.clone()), ("/c", { let mut v = c3.clone(); for x in &mut v[100..200] { *x = 9; } v })],
        |c| { let mut s = c.open_stream("/c")?; s.seek(SeekFrom::Start(100))?; s.write_all(&[9u8; 100])?; Ok(s) }));
    bad.extend(sweep_flush("new d 70", &[("/a", a.clone()), ("/b", b.clone()), ("/c", c3.clone()), ("/d", vec![5u8; 70])],
        |c| { let mut s = c.create_stream("/d")?; s.write_all(&[5u8; 70])?; Ok(s) }));
    bad.extend(sweep_flush("new d 4200", &[("/a", a.clone()), ("/b", b.clone()), ("/c", c3.clone()), ("/d", vec![5u8; 4200])],
        |c| { let mut s = c.create_stream("/d")?; s.write_all(&[5u8; 4200])?; Ok(s) }));
    bad.extend(sweep_flush("new d 600 (new mini stream sector)", &[("/a", a.clone()), ("/b", b.clone()), ("/c", c3.clone()), ("/d", vec![5u8; 600])],
        |c| { let mut s = c.create_stream("/d")?; s.write_all(&[5u8; 600])?; Ok(s) }));
    eprintln!("{} problems", bad.len());
    let mut groups = std::collections::BTreeMap::new();
    for l in &bad { let key = l.split(" k=").next().unwrap().to_string() + " :: " + l.splitn(2, ": ").nth(1).unwrap_or(""); groups.entry(key).or_insert(Vec::new()).push(l.split(" k=").nth(1).unwrap().split(':').next().unwrap().to_string()); }
    assert!(bad.is_empty(), "{:#?}", groups);
}
