use cfb::{CompoundFile, Version};
use std::io::{Cursor, Write};
#[test]
fn c03_remove_keeps_no_adjacent_reds() {
    let mut comp = CompoundFile::create_with_version(Version::V3, Cursor::new(Vec::new())).unwrap();
    for n in ["d", "b", "f"] { comp.create_stream(format!("/{}", n)).unwrap().write_all(b"x").unwrap(); }
    comp.flush().unwrap();
    let mut bytes = comp.into_inner().into_inner();
    // directory sector = sector 1 (offset 1024); entries 1..3 = d, b, f; colour byte at +67: make b and f red
    for slot in [2usize, 3] { bytes[1024 + 128 * slot + 67] = 0; }
    CompoundFile::open_strict(Cursor::new(bytes.clone())).expect("legal colouring: black node with two red children");
    let mut comp = CompoundFile::open(Cursor::new(bytes)).unwrap();
    comp.remove_stream("/d").unwrap();
    let bytes = comp.into_inner().into_inner();
    CompoundFile::open_strict(Cursor::new(bytes)).expect("strict reopen after removing the black node");
}
