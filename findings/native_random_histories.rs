use cfb::{CompoundFile, Version};
use rand::{Rng, SeedableRng};
use std::collections::BTreeMap;
use std::io::{Cursor, Read, Seek, SeekFrom, Write};

fn check(comp: &mut CompoundFile<Cursor<Vec<u8>>>, model: &BTreeMap<String, Vec<u8>>) {
    let mut names: Vec<String> = comp.read_root_storage().map(|e| e.name().to_string()).collect();
    names.sort();
    let want: Vec<String> = model.keys().cloned().collect();
    assert_eq!(names, want);
    for (n, data) in model.iter() {
        let mut v = Vec::new();
        comp.open_stream(format!("/{}", n)).unwrap().read_to_end(&mut v).unwrap();
        assert!(v == *data, "content of {} differs (len {} vs {})", n, v.len(), data.len());
    }
}

#[test]
fn random_histories() {
    for seed in 0..60u64 {
        let mut rng = rand_pcg::Pcg32::seed_from_u64(seed);
        let v = if seed % 2 == 0 { Version::V3 } else { Version::V4 };
        let mut comp = CompoundFile::create_with_version(v, Cursor::new(Vec::new())).unwrap();
        let mut model: BTreeMap<String, Vec<u8>> = BTreeMap::new();
        let sizes = [0usize, 1, 63, 64, 65, 100, 511, 512, 513, 1000, 4095, 4096, 4097, 5000, 9000];
        for step in 0..120 {
            let name = format!("{}", (b'a' + rng.gen_range(0..8u8)) as char);
            match rng.gen_range(0..6) {
                0 | 1 => {
                    let sz = sizes[rng.gen_range(0..sizes.len())];
                    let data: Vec<u8> = (0..sz).map(|_| rng.gen_range(1..=255u8)).collect();
                    comp.create_stream(format!("/{}", name)).unwrap().write_all(&data).unwrap();
                    model.insert(name, data);
                }
                2 => { if model.remove(&name).is_some() { comp.remove_stream(format!("/{}", name)).unwrap(); } }
                3 | 4 => {
                    if let Some(d) = model.get_mut(&name) {
                        let sz = sizes[rng.gen_range(0..sizes.len())];
                        let mut s = comp.open_stream(format!("/{}", name)).unwrap();
                        s.set_len(sz as u64).unwrap();
                        d.resize(sz, 0);
                    }
                }
                _ => {
                    if let Some(d) = model.get_mut(&name) {
                        let mut s = comp.open_stream(format!("/{}", name)).unwrap();
                        let pos = if d.is_empty() { 0 } else { rng.gen_range(0..=d.len()) };
                        let n = rng.gen_range(0..700usize);
                        let data: Vec<u8> = (0..n).map(|_| rng.gen_range(1..=255u8)).collect();
                        s.seek(SeekFrom::Start(pos as u64)).unwrap();
                        s.write_all(&data).unwrap();
                        if d.len() < pos + n { d.resize(pos + n, 0); }
                        d[pos..pos + n].copy_from_slice(&data);
                    }
                }
            }
            check(&mut comp, &model);
            if step % 20 == 19 {
                let bytes = comp.into_inner().into_inner();
                CompoundFile::open_strict(Cursor::new(bytes.clone())).expect("strict reopen");
                comp = CompoundFile::open(Cursor::new(bytes)).unwrap();
                check(&mut comp, &model);
            }
        }
    }
}
