// Native demonstrations (public API only) of five of the defects repaired by
// "fix:" commits in /repo; copy to /repo/tests/ and run
//   cargo test --offline --test native_probe1
// Each test passes on the repaired tree and fails when the named commit is
// reverted (seeded/R-<commit>/patch.diff).
use std::io::{Cursor, Read, Seek, SeekFrom, Write};

fn new_file() -> cfb::CompoundFile<Cursor<Vec<u8>>> {
    cfb::CompoundFile::create(Cursor::new(Vec::new())).unwrap()
}

// 8bc0432 (C06): seek(End(i64::MIN)) / seek(Current(i64::MIN)) panicked on the negation (dev profile).
#[test]
fn c06_seek_min() {
    let mut c = new_file();
    let mut s = c.create_stream("/s").unwrap();
    s.write_all(&[7u8; 20]).unwrap();
    assert!(s.seek(SeekFrom::End(i64::MIN)).is_err());
    assert!(s.seek(SeekFrom::Current(i64::MIN)).is_err());
    assert_eq!(s.stream_position().unwrap(), 20);
}

// 5f5cf9f (C07): removing a sibling with two children moved its in-order predecessor to
// the removed slot; an open handle of the predecessor then addressed a freed entry.
#[test]
fn c07_open_handle_survives_removal_of_sibling() {
    let mut c = new_file();
    for n in ["b", "a", "c"] {
        let mut s = c.create_stream(format!("/{}", n)).unwrap();
        s.write_all(n.as_bytes()).unwrap();
    }
    // tree: b is the root of the sibling tree with children a and c
    let mut a = c.open_stream("/a").unwrap();
    c.remove_stream("/b").unwrap();
    let mut x = c.create_stream("/x").unwrap(); // reuses the freed slot
    x.write_all(b"xxxx").unwrap();
    drop(x);
    let mut buf = Vec::new();
    a.seek(SeekFrom::Start(0)).unwrap();
    a.read_to_end(&mut buf).unwrap();
    assert_eq!(buf, b"a", "handle of /a reads /a's bytes");
    a.write_all(b"AA").unwrap();
    a.flush().unwrap();
    assert_eq!(c.entry("/a").unwrap().len(), 3);
    assert_eq!(c.entry("/x").unwrap().len(), 4);
}

// cd8c16f (C08): bytes gained by set_len showed stale data.
#[test]
fn c08_grown_bytes_are_zero() {
    for (first, shrink, grow) in [(100u64, 10u64, 100u64), (5000, 4200, 5000), (5000, 100, 300)] {
        let mut c = new_file();
        let mut s = c.create_stream("/s").unwrap();
        s.write_all(&vec![0xabu8; first as usize]).unwrap();
        s.set_len(shrink).unwrap();
        s.set_len(grow).unwrap();
        s.seek(SeekFrom::Start(0)).unwrap();
        let mut buf = Vec::new();
        s.read_to_end(&mut buf).unwrap();
        assert_eq!(buf.len() as u64, grow);
        assert!(buf[shrink as usize..].iter().all(|&b| b == 0), "{} -> {} -> {}: stale bytes", first, shrink, grow);
    }
}

// 73dbb41 (C09): creation entry points accepted names the format forbids (release) or panicked (dev).
#[test]
fn c09_invalid_names_refused() {
    let mut c = new_file();
    let long = "x".repeat(32);
    for bad in ["/a:b", "/a!b", long.as_str()] {
        let r = std::panic::catch_unwind(std::panic::AssertUnwindSafe(|| c.create_storage(bad).is_err()));
        assert_eq!(r.ok(), Some(true), "create_storage({:?}) must be refused without panic", bad);
        let r = std::panic::catch_unwind(std::panic::AssertUnwindSafe(|| c.create_stream(bad).is_err()));
        assert_eq!(r.ok(), Some(true), "create_stream({:?}) must be refused without panic", bad);
    }
    assert_eq!(c.read_root_storage().count(), 0);
}

// 76c8d71 (C15): every create/write/remove cycle of a small stream extended the
// MiniFAT and mini-stream chains again.
#[test]
fn c15_small_stream_cycles_do_not_grow_the_file() {
    let mut sizes = Vec::new();
    for cycles in [2usize, 6] {
        let mut c = new_file();
        for _ in 0..cycles {
            let mut s = c.create_stream("/s").unwrap();
            s.write_all(&[1u8; 64]).unwrap();
            drop(s);
            c.remove_stream("/s").unwrap();
        }
        c.flush().unwrap();
        sizes.push(c.into_inner().into_inner().len());
    }
    assert_eq!(sizes[0], sizes[1], "file keeps growing: {:?}", sizes);
}
