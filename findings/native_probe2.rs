use cfb::{CompoundFile, Version};
use std::io::{Cursor, Read, Seek, SeekFrom, Write};
#[test]
fn c01_create_under_stream() {
    let mut comp = CompoundFile::create(Cursor::new(Vec::new())).unwrap();
    comp.create_stream("/s").unwrap().write_all(b"abc").unwrap();
    let r = comp.create_stream("/s/x").map(|_| ());
    println!("create_stream under stream: {:?}", r);
    let r2 = comp.create_storage("/s/y");
    println!("create_storage under stream: {:?}", r2);
    println!("exists /s/x {}", comp.exists("/s/x"));
    let inner = comp.into_inner();
    let r3 = CompoundFile::open_strict(inner).map(|_| ());
    println!("reopen strict: {:?}", r3);
    assert!(r.is_err() && r2.is_err());
}
#[test]
fn c03_unallocated_blank() {
    let mut comp = CompoundFile::create_with_version(Version::V3, Cursor::new(Vec::new())).unwrap();
    comp.flush().unwrap();
    let b = comp.into_inner().into_inner();
    // dir sector = sector 1 at 1024; entry 1 at +128
    let e = &b[1024+128..1024+256];
    println!("name_len field of unallocated entry: {}", u16::from_le_bytes([e[64], e[65]]));
    let nz: Vec<usize> = (0..128).filter(|&i| e[i] != 0 && !(68..80).contains(&i)).collect();
    assert!(nz.is_empty(), "non-zero bytes at {:?}", nz);
}
#[test]
fn c12_stale_window() {
    struct Faulty { c: Cursor<Vec<u8>>, fail_at: usize, n: usize }
    impl Read for Faulty { fn read(&mut self, b: &mut [u8]) -> std::io::Result<usize> { self.n += 1; if self.n == self.fail_at { return Err(std::io::Error::new(std::io::ErrorKind::Other, "boom")); } self.c.read(b) } }
    impl Seek for Faulty { fn seek(&mut self, p: SeekFrom) -> std::io::Result<u64> { self.c.seek(p) } }
    let mut comp = CompoundFile::create(Cursor::new(Vec::new())).unwrap();
    let data: Vec<u8> = (0..5000u32).map(|i| (i % 251) as u8).collect();
    comp.create_stream("/a").unwrap().write_all(&data).unwrap();
    comp.flush().unwrap();
    let bytes = comp.into_inner().into_inner();
    // count reads for a clean run
    for fail_at in 1..400 {
        let f = Faulty { c: Cursor::new(bytes.clone()), fail_at: usize::MAX, n: 0 };
        let mut comp = match cfb::OpenOptions::new().max_buffer_size(1024).open_with(f) { Ok(c) => c, Err(_) => continue };
        let mut s = comp.open_stream("/a").unwrap();
        let mut out = Vec::new();
        let mut buf = [0u8; 700];
        // arm the fault after open
        let mut armed = false;
        let mut errs = 0;
        loop {
            if !armed && out.len() >= 700 { armed = true; /* can't reach inner; emulate by reopening below */ }
            match s.read(&mut buf) { Ok(0) => break, Ok(n) => out.extend_from_slice(&buf[..n]), Err(_) => { errs += 1; if errs > 3 { break; } } }
        }
        let _ = fail_at; let _ = armed;
        assert_eq!(out, data);
        break;
    }
}
