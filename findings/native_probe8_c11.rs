// Native reproductions of three genuine C11 defects (pointed out by sub-agents' side notes,
// confirmed here; fixed by /repo commits 70775ef, 3971f98, b0c4eef).  Drop into tests/ of the crate:
// every test fails on the tree before the respective fix and passes after it.
use std::io::{Cursor, Read, Seek, SeekFrom, Write};

fn base() -> Vec<u8> {
    let mut c = cfb::CompoundFile::create_with_version(cfb::Version::V3, Cursor::new(Vec::new())).unwrap();
    c.create_stream("/s").unwrap().write_all(&[7u8; 100]).unwrap();
    c.create_stream("/big").unwrap().write_all(&[9u8; 5000]).unwrap();
    c.flush().unwrap();
    c.into_inner().into_inner()
}

// (1) file has more sectors than its single FAT sector covers
#[test]
fn more_sectors_than_fat_covers() {
    let mut img = base();
    let n = img.len() / 512 - 1;
    // pad file to 131 sectors (FAT sector covers 128)
    img.resize(512 * (1 + 131), 0);
    eprintln!("sectors before {} after 131", n);
    for strict in [false, true] {
        let r = if strict { cfb::CompoundFile::open_strict(Cursor::new(img.clone())) } else { cfb::CompoundFile::open(Cursor::new(img.clone())) };
        match r {
            Ok(mut c) => {
                eprintln!("strict={} accepted", strict);
                let r = std::panic::catch_unwind(std::panic::AssertUnwindSafe(|| {
                    let mut s = c.create_stream("/new").unwrap();
                    let r = s.write_all(&[1u8; 6000]).and_then(|_| s.flush());
                    eprintln!("write result {:?}", r.is_ok());
                }));
                assert!(r.is_ok(), "panic while allocating (strict={})", strict);
            }
            Err(e) => eprintln!("strict={} rejected: {}", strict, e),
        }
    }
}

// (2) stream entry with start sector END_OF_CHAIN and a non-zero length
#[test]
fn eoc_start_nonzero_len() {
    let img0 = base();
    // find the dir entry of "s": directory sector; search for name 's' UTF-16 with len 4
    let mut img = img0.clone();
    let mut found = false;
    for off in (512..img.len()).step_by(128) {
        if img[off] == b's' && img[off + 1] == 0 && img[off + 2] == 0 && img[off + 64] == 4 && img[off + 66] == 2 {
            // start sector at +116, size at +120
            img[off + 116..off + 120].copy_from_slice(&0xFFFFFFFEu32.to_le_bytes());
            found = true;
        }
    }
    assert!(found);
    match cfb::CompoundFile::open(Cursor::new(img)) {
        Ok(mut c) => {
            eprintln!("accepted");
            let r = std::panic::catch_unwind(std::panic::AssertUnwindSafe(|| {
                let mut s = c.open_stream("/s").unwrap();
                let mut b = Vec::new();
                let rr = s.read_to_end(&mut b);
                eprintln!("read {:?} {}", rr.is_ok(), b.len());
                let r1 = s.seek(SeekFrom::Start(10));
                let r = s.write_all(&[1u8; 20]).and_then(|_| s.flush());
                eprintln!("write result {:?} {:?}", r1.is_ok(), r.is_ok());
                let r = s.set_len(50);
                eprintln!("set_len {:?}", r.is_ok());
            }));
            assert!(r.is_ok(), "panic");
        }
        Err(e) => eprintln!("rejected: {}", e),
    }
}



fn base9(v: cfb::Version) -> Vec<u8> {
    let mut c = cfb::CompoundFile::create_with_version(v, Cursor::new(Vec::new())).unwrap();
    c.create_stream("/s").unwrap().write_all(&[7u8; 100]).unwrap();
    c.create_stream("/big").unwrap().write_all(&[9u8; 5000]).unwrap();
    c.flush().unwrap();
    c.into_inner().into_inner()
}
fn patch(img: &mut Vec<u8>, name: &[u8], start: Option<u32>, len: Option<u64>) {
    let mut found = false;
    let n = name.len();
    for off in (512..img.len() - 128).step_by(128) {
        let mut ok = img[off + 64] as usize == 2 * n + 2 && img[off + 66] == 2;
        for (i, ch) in name.iter().enumerate() { ok &= img[off + 2 * i] == *ch && img[off + 2 * i + 1] == 0; }
        if ok {
            if let Some(s) = start { img[off + 116..off + 120].copy_from_slice(&s.to_le_bytes()); }
            if let Some(l) = len { img[off + 120..off + 128].copy_from_slice(&l.to_le_bytes()); }
            found = true;
        }
    }
    assert!(found);
}
fn run(img: Vec<u8>, what: &str, f: impl Fn(&mut cfb::CompoundFile<Cursor<Vec<u8>>>)) -> bool {
    match cfb::CompoundFile::open(Cursor::new(img)) {
        Ok(mut c) => {
            let r = std::panic::catch_unwind(std::panic::AssertUnwindSafe(|| f(&mut c)));
            eprintln!("{}: accepted, panic={}", what, r.is_err());
            r.is_ok()
        }
        Err(e) => { eprintln!("{}: rejected: {}", what, e); true }
    }
}

#[test]
fn huge_len_v4() {
    let mut ok = true;
    for (nm, l) in [("max", u64::MAX), ("max-5", u64::MAX - 5), ("2^63", 1u64 << 63), ("2^63-1", (1u64 << 63) - 1), ("2^40", 1u64 << 40)] {
        let mut img = base9(cfb::Version::V4);
        patch(&mut img, b"big", None, Some(l));
        ok &= run(img.clone(), &format!("{} seek end write", nm), |c| {
            let mut s = c.open_stream("/big").unwrap();
            let a = s.seek(SeekFrom::End(0)); let b = s.write(b"xyz"); let d = s.flush();
            eprintln!("   {:?} {:?} {:?}", a.is_ok(), b.is_ok(), d.is_ok());
        });
        ok &= run(img.clone(), &format!("{} seek end-1 read", nm), |c| {
            let mut s = c.open_stream("/big").unwrap();
            let a = s.seek(SeekFrom::End(-1)); let mut b = [0u8; 10]; let d = s.read(&mut b);
            eprintln!("   {:?} {:?}", a.is_ok(), d.is_ok());
        });
        ok &= run(img.clone(), &format!("{} set_len", nm), |c| {
            let mut s = c.open_stream("/big").unwrap();
            let a = s.set_len(5000); eprintln!("   {:?}", a.is_ok());
            let a = s.set_len(100); eprintln!("   {:?}", a.is_ok());
        });
        ok &= run(img.clone(), &format!("{} remove", nm), |c| { let a = c.remove_stream("/big"); eprintln!("   {:?}", a.is_ok()); });
        ok &= run(img.clone(), &format!("{} overwrite", nm), |c| { let a = c.create_stream("/big").map(|_| ()); eprintln!("   {:?}", a.is_ok()); });
        ok &= run(img.clone(), &format!("{} current", nm), |c| {
            let mut s = c.open_stream("/big").unwrap();
            let a = s.seek(SeekFrom::Start(l)); let b = s.seek(SeekFrom::Current(1)); let d = s.seek(SeekFrom::Current(-1));
            eprintln!("   {:?} {:?} {:?}", a.is_ok(), b.is_ok(), d.is_ok());
        });
    }
    assert!(ok);
}

#[test]
fn inconsistent_small() {
    let mut ok = true;
    for v in [cfb::Version::V3, cfb::Version::V4] {
        // small stream claiming more than its chain, regular stream claiming < cutoff, small claiming >= cutoff
        for (nm, name, st, l) in [("s len 300", &b"s"[..], None, Some(300u64)), ("s len 4096", b"s", None, Some(4096)), ("s len 5000", b"s", None, Some(5000)),
                                  ("big len 100", b"big", None, Some(100)), ("big len 9000", b"big", None, Some(9000)), ("big len 0", b"big", None, Some(0)), ("s len 0", b"s", None, Some(0)),
                                  ("s start EOC", b"s", Some(0xFFFFFFFE), None), ("big start EOC", b"big", Some(0xFFFFFFFE), None),
                                  ("s start FREE", b"s", Some(0xFFFFFFFF), None), ("big start 1", b"big", Some(1), None), ("big start 0", b"big", Some(0), None)] {
            let mut img = base9(v);
            patch(&mut img, name, st, l);
            let path = format!("/{}", std::str::from_utf8(name).unwrap());
            let p = path.clone();
            ok &= run(img.clone(), &format!("{:?} {} read", v, nm), move |c| { let mut s = c.open_stream(&p).unwrap(); let mut b = Vec::new(); let _ = s.read_to_end(&mut b); });
            for off in [0u64, 10, 64, 100, 299, 300, 4095, 4096, 5000] {
                for wl in [1usize, 64, 200, 4096, 5000] {
                    let p = path.clone();
                    ok &= run(img.clone(), &format!("{:?} {} write {}@{}", v, nm, wl, off), move |c| {
                        let mut s = c.open_stream(&p).unwrap();
                        if s.seek(SeekFrom::Start(off)).is_ok() { let _ = s.write_all(&vec![1u8; wl]); let _ = s.flush(); }
                    });
                }
            }
            for nl in [0u64, 1, 64, 100, 300, 4095, 4096, 4097, 9000, 20000] {
                let p = path.clone();
                ok &= run(img.clone(), &format!("{:?} {} set_len {}", v, nm, nl), move |c| { let mut s = c.open_stream(&p).unwrap(); let _ = s.set_len(nl); });
            }
            let p = path.clone();
            ok &= run(img.clone(), &format!("{:?} {} remove", v, nm), move |c| { let _ = c.remove_stream(&p); });
            let p = path.clone();
            ok &= run(img.clone(), &format!("{:?} {} overwrite", v, nm), move |c| { let _ = c.create_stream(&p).map(|mut s| { let _ = s.write_all(&[3u8; 70]); }); });
        }
    }
    assert!(ok);
}


#[test]
fn set_len_huge() {
    for v in [cfb::Version::V3, cfb::Version::V4] {
        for big in [false, true] {
            for nl in [u64::MAX, u64::MAX - 100, u64::MAX - 511, u64::MAX - 4095] {
                let mut c = cfb::CompoundFile::create_with_version(v, Cursor::new(Vec::new())).unwrap();
                c.create_stream("/s").unwrap().write_all(&vec![7u8; if big {5000} else {100}]).unwrap();
                let r = std::panic::catch_unwind(std::panic::AssertUnwindSafe(|| {
                    let mut s = c.open_stream("/s").unwrap();
                    let r = s.set_len(nl);
                    eprintln!("{:?} big={} set_len({}) -> ok={} len now {}", v, big, nl, r.is_ok(), s.len());
                }));
                eprintln!("   panic={}", r.is_err());
            }
        }
    }
}
