#![allow(dead_code)]
use super::*;
pub(crate) fn sector_ids<'b, 'a, F>(c: &'b Chain<'a, F>) -> &'b Vec<u32> { &c.sector_ids }
