// C14 (overlay variant `lock`): every read-only method, every iterator step
// and every stream operation acquires the single RwLock only while no guard of
// it is live in the same call chain, and releases it before returning.  The
// assertion lives in vlock.rs; this harness drives the calls.  Thread
// schedules themselves are NOT explored (see DESIGN.md): what is decided is
// the sequential discipline from which freedom from deadlock follows for a
// single lock.
use super::env::*;
use super::h_api::*;
use super::h_stor::*;
use super::util::*;
use std::io::{Read, Seek, SeekFrom, Write};

fn free(c: &crate::CompoundFile<PS>) {
    assert!(super::lockty::live_guards(&c.minialloc) == 0, "C14: a lock guard is still held after the call returned (a writer would starve / a nested call deadlock)");
}

#[kani::proof]
#[kani::stub(std::fmt::format, stub_format)]
#[kani::stub(std::ffi::OsStr::to_str, stub_osstr_to_str)]
#[kani::stub(std::io::copy, stub_io_copy)]
#[kani::stub(crate::internal::path::cfb_uppercase_char, super::uptable::table_upper)]
#[kani::unwind(140)]
fn c14_lookups() {
    let mut p = small_parts(&[1, EOC, EOC], 0, 100, 2, 64);
    let c = mk_comp(&mut p);
    let _ = c.version(); free(&c);
    let r = c.root_entry(); free(&c);
    assert!(r.is_root());
    assert!(c.entry("/s").is_ok()); free(&c);
    assert!(c.entry("/zz").is_err()); free(&c);
    assert!(c.exists("/d")); free(&c);
    assert!(c.is_stream("/o")); free(&c);
    assert!(c.is_storage("/d")); free(&c);
    assert!(!c.is_storage("/nope")); free(&c);
    kani::cover!(true, "end");
    std::mem::forget(c);
}

#[kani::proof]
#[kani::stub(std::fmt::format, stub_format)]
#[kani::stub(std::ffi::OsStr::to_str, stub_osstr_to_str)]
#[kani::stub(std::io::copy, stub_io_copy)]
#[kani::stub(crate::internal::path::cfb_uppercase_char, super::uptable::table_upper)]
#[kani::unwind(140)]
fn c14_iter_root() {
    // between two next() calls no guard may be held, and read-only calls made
    // while an iterator is alive must not find the lock taken
    let mut p = small_parts(&[1, EOC, EOC], 0, 100, 2, 64);
    let c = mk_comp(&mut p);
    let mut n = 0;
    let mut it = c.read_root_storage(); free(&c);
    while let Some(e) = it.next() {
        free(&c);
        let _ = c.is_stream(e.path()); free(&c);
        n += 1;
    }
    assert!(n == 3, "C01: root storage has three children");
    kani::cover!(true, "end");
    std::mem::forget(c);
}

#[kani::proof]
#[kani::stub(std::fmt::format, stub_format)]
#[kani::stub(std::ffi::OsStr::to_str, stub_osstr_to_str)]
#[kani::stub(std::io::copy, stub_io_copy)]
#[kani::stub(crate::internal::path::cfb_uppercase_char, super::uptable::table_upper)]
#[kani::unwind(140)]
fn c14_iter_walk() {
    let mut p = small_parts(&[1, EOC, EOC], 0, 100, 2, 64);
    let c = mk_comp(&mut p);
    let mut n = 0;
    let mut it = c.walk(); free(&c);
    while let Some(e) = it.next() {
        free(&c);
        let _ = c.exists(e.path()); free(&c);
        n += 1;
    }
    assert!(n == 4, "C01: walk visits the root and its three children");
    kani::cover!(true, "end");
    std::mem::forget(c);
}

#[kani::proof]
#[kani::stub(std::fmt::format, stub_format)]
#[kani::stub(std::ffi::OsStr::to_str, stub_osstr_to_str)]
#[kani::stub(std::io::copy, stub_io_copy)]
#[kani::stub(crate::internal::path::cfb_uppercase_char, super::uptable::table_upper)]
#[kani::unwind(140)]
fn c14_iter_storage() {
    let mut p = small_parts(&[1, EOC, EOC], 0, 100, 2, 64);
    let c = mk_comp(&mut p);
    let mut it = c.read_storage("/d").unwrap(); free(&c);
    assert!(it.next().is_none()); free(&c);
    let mut it = c.walk_storage("/d").unwrap(); free(&c);
    assert!(it.next().is_some()); free(&c);
    assert!(it.next().is_none()); free(&c);
    kani::cover!(true, "end");
    std::mem::forget(c);
}

#[kani::proof]
#[kani::stub(std::fmt::format, stub_format)]
#[kani::stub(std::ffi::OsStr::to_str, stub_osstr_to_str)]
#[kani::stub(std::io::copy, stub_io_copy)]
#[kani::stub(crate::internal::path::cfb_uppercase_char, super::uptable::table_upper)]
#[kani::stub(crate::internal::stream::Stream::minialloc, crate::internal::stream::vacc::stub_upgrade)]
#[kani::unwind(140)]
fn c14_stream_ops() {
    let mut p = small_parts(&[1, EOC, EOC], 0, 100, 2, 64);
    let mut c = mk_comp(&mut p);
    let mut s = c.open_stream("/s").unwrap(); free(&c);
    let mut buf = [0u8; 10];
    assert!(s.read(&mut buf).is_ok()); free(&c);
    let _ = c.entry("/s"); free(&c); // a reader between two stream operations
    assert!(s.seek(SeekFrom::Start(95)).is_ok()); free(&c);
    assert!(s.write(&[1, 2, 3, 4, 5, 6, 7, 8, 9, 10]).is_ok()); free(&c);
    assert!(s.flush().is_ok()); free(&c);
    let _ = c.is_stream("/s"); free(&c);
    assert!(s.set_len(40).is_ok()); free(&c);
    assert!(s.seek(SeekFrom::End(-5)).is_ok()); free(&c);
    assert!(s.read(&mut buf).is_ok()); free(&c);
    let e = c.entry("/s").unwrap(); free(&c);
    assert!(e.len() == 40, "C14/C06: reader sees the state after the whole stream operation");
    kani::cover!(true, "end");
    std::mem::forget(s);
    std::mem::forget(c);
}
