// C14 (overlay variant `lock`): every read-only method, every iterator step
// and every stream operation acquires the single RwLock only while no guard of
// it is live in the same call chain, and releases it before returning.  The
// assertion lives in vlock.rs; this harness drives the calls.  Thread
// schedules themselves are NOT explored (see DESIGN.md): what is decided is
// the sequential discipline from which freedom from deadlock follows for a
// single lock.
use super::env::*;
use super::h_api::*;
use super::h_stor::*;
use super::util::*;
use std::io::{Read, Seek, SeekFrom, Write};

fn free(c: &crate::CompoundFile<PS>) {
    assert!(super::lockty::live_guards(&c.minialloc) == 0, "C14: a lock guard is still held after the call returned (a writer would starve / a nested call deadlock)");
}

#[kani::proof]
#[kani::stub(std::fmt::format, stub_format)]
#[kani::stub(std::ffi::OsStr::to_str, stub_osstr_to_str)]
#[kani::stub(std::io::copy, stub_io_copy)]
#[kani::stub(crate::internal::path::cfb_uppercase_char, super::uptable::table_upper)]
#[kani::unwind(140)]
fn c14_lookups() {
    let mut p = small_parts(&[1, EOC, EOC], 0, 100, 2, 64);
    let c = mk_comp(&mut p);
    let _ = c.version(); free(&c);
    let r = c.root_entry(); free(&c);
    assert!(r.is_root());
    assert!(c.entry("/s").is_ok()); free(&c);
    assert!(c.entry("/zz").is_err()); free(&c);
    assert!(c.exists("/d")); free(&c);
    assert!(c.is_stream("/o")); free(&c);
    assert!(c.is_storage("/d")); free(&c);
    assert!(!c.is_storage("/nope")); free(&c);
    kani::cover!(true, "end");
    std::mem::forget(c);
}

#[kani::proof]
#[kani::stub(std::fmt::format, stub_format)]
#[kani::stub(std::ffi::OsStr::to_str, stub_osstr_to_str)]
#[kani::stub(std::io::copy, stub_io_copy)]
#[kani::stub(crate::internal::path::cfb_uppercase_char, super::uptable::table_upper)]
#[kani::unwind(140)]
fn c14_iter_root() {
    // between two next() calls no guard may be held, and read-only calls made
    // while an iterator is alive must not find the lock taken
    let mut p = small_parts(&[1, EOC, EOC], 0, 100, 2, 64);
    let c = mk_comp(&mut p);
    let mut n = 0;
    {
        // the iterator lives in its own scope: a changed iterator that borrows the file for its whole life
        // must still compile here (and then meets the assertions below)
        let mut it = c.read_root_storage(); free(&c);
        while let Some(e) = it.next() {
            free(&c);
            let _ = c.is_stream(e.path()); free(&c);
            n += 1;
        }
    }
    assert!(n == 3, "C01: root storage has three children");
    kani::cover!(true, "end");
    std::mem::forget(c);
}

#[kani::proof]
#[kani::stub(std::fmt::format, stub_format)]
#[kani::stub(std::ffi::OsStr::to_str, stub_osstr_to_str)]
#[kani::stub(std::io::copy, stub_io_copy)]
#[kani::stub(crate::internal::path::cfb_uppercase_char, super::uptable::table_upper)]
#[kani::unwind(140)]
fn c14_iter_walk() {
    let mut p = small_parts(&[1, EOC, EOC], 0, 100, 2, 64);
    let c = mk_comp(&mut p);
    let mut n = 0;
    {
        let mut it = c.walk(); free(&c);
        while let Some(e) = it.next() {
            free(&c);
            let _ = c.exists(e.path()); free(&c);
            n += 1;
        }
    }
    assert!(n == 4, "C01: walk visits the root and its three children");
    kani::cover!(true, "end");
    std::mem::forget(c);
}

#[kani::proof]
#[kani::stub(std::fmt::format, stub_format)]
#[kani::stub(std::ffi::OsStr::to_str, stub_osstr_to_str)]
#[kani::stub(std::io::copy, stub_io_copy)]
#[kani::stub(crate::internal::path::cfb_uppercase_char, super::uptable::table_upper)]
#[kani::unwind(140)]
fn c14_iter_storage() {
    let mut p = small_parts(&[1, EOC, EOC], 0, 100, 2, 64);
    let c = mk_comp(&mut p);
    {
        let mut it = c.read_storage("/d").unwrap(); free(&c);
        assert!(it.next().is_none()); free(&c);
    }
    {
        let mut it = c.walk_storage("/d").unwrap(); free(&c);
        assert!(it.next().is_some()); free(&c);
        assert!(it.next().is_none()); free(&c);
    }
    kani::cover!(true, "end");
    std::mem::forget(c);
}

/// Stream side of C14.  The lock acquisition sites of the handle operations
/// (Stream::new, set_len, the refill in read, flush, the Flusher used by
/// seek/write/drop) are the real ones; the storage functions they call while
/// holding the guard are diverted to the storage model of h_cache (variant
/// buf8), so that the window logic is crossed several times at small cost.
/// After every handle operation no guard may be live, and a reader-style
/// acquisition (what entry()/exists()/... do) must be possible and must see
/// the directory length of a whole-operation state.
macro_rules! c14_stream_seq {
    ($name:ident, [$($op:expr),*], $maxbuf:expr) => {
        #[kani::proof]
        #[kani::stub(std::fmt::format, stub_format)]
        #[kani::stub(std::io::copy, stub_io_copy)]
        #[kani::stub(crate::internal::stream::Stream::minialloc, crate::internal::stream::vacc::stub_upgrade)]
        #[kani::unwind(34)]
        fn $name() {
            use super::h_cache as hc;
            let mut model = hc::init();
            let arc = std::sync::Arc::new(super::lockty::RwLock::new(hc::tiny_minialloc()));
            let mut s = crate::internal::stream::Stream::new(&arc, 1, $maxbuf);
            assert!(super::lockty::live_guards(&arc) == 0, "C14: a lock guard is still held after Stream::new returned");
            $(
                hc::op_c(&mut s, &mut model, $op);
                assert!(super::lockty::live_guards(&arc) == 0, "C14: a lock guard is still held after a stream operation returned");
                {
                    let g = arc.read().unwrap(); // a reader between two stream operations
                    let l = g.dir_entry(1).stream_len;
                    assert!(l <= hc::CAP as u64, "C14: reader saw a length no whole stream operation produced");
                }
                assert!(super::lockty::live_guards(&arc) == 0);
            )*
            let r = s.flush();
            assert!(r.is_ok());
            assert!(super::lockty::live_guards(&arc) == 0, "C14: a lock guard is still held after flush returned");
            {
                let g = arc.read().unwrap();
                assert!(g.dir_entry(1).stream_len == model.len as u64, "C14/C06: reader sees the state after the whole stream operation");
            }
            kani::cover!(true, "end");
            std::mem::forget(s);
            std::mem::forget(arc);
        }
    };
}

// r6 w6 l20 f s0 r6 l7 w10 f  (op codes of vlib/seqs.py NAMES)
c14_stream_seq!(c14_stream_rw, [1, 3, 16, 5, 1, 1], 8);
c14_stream_seq!(c14_stream_setlen, [1, 15, 7, 1, 14, 4], 8);
c14_stream_seq!(c14_stream_big_window, [1, 3, 15, 16, 5, 1, 14, 4], 32);
