// Stream storage at the 4096-byte mini-stream cutoff (stream.rs resize /
// lib.rs remove_stream), on a layout with a large stream "b" in regular
// sectors and a small stream "s" in the mini stream.  Lengths are concrete per
// instance (4095 / 4096 / 4097 / 5000 ...), data and slack bytes symbolic.
// C03 (placement by the cutoff, chain length = size), C07 (other stream
// untouched), C08 (gained bytes zero), C01 (content kept), C15 (sectors freed).
use super::env::*;
use super::h_dirent::*;
use super::util::*;
use super::lockty::RwLock;
use crate::internal::alloc::vacc as aacc;
use crate::internal::directory::vacc as dacc;
use crate::internal::minialloc::vacc as macc;
use crate::internal::stream::vacc as sacc;
use crate::internal::{DirEntry, MiniAllocator, ObjType, Sectors, Version};
use crate::CompoundFile;
use std::sync::Arc;

pub const NBS: usize = 14; // sectors 0..13 in the pre-state
pub const NB: usize = SEC * (1 + NBS + 11);
pub type FB = ArrFile<NB>;
pub type PB = PtrFile<NB>;

pub struct BigParts {
    pub data: [u8; NB],
    pub len: usize,
    pub fat: Vec<u32>,
    pub free: Vec<u32>,
    pub entries: Vec<DirEntry>,
    pub mf: Vec<u32>,
    pub nb: usize, // sectors of b
}

/// b = slot 1: regular chain 4,5,..,4+nb-1 with length b_len (nb = ceil(b_len/512), 0 => empty);
/// s = slot 2: mini chain 0->1, 100 bytes.  Unused sectors up to 13 are FREE.
pub fn big_parts(b_len: u64) -> BigParts {
    let nb = ((b_len + 511) / 512) as usize;
    let mut data = [0u8; NB];
    let ff = [0xffu8; SEC];
    data[soff(0)..soff(0) + SEC].copy_from_slice(&ff);
    let mut fatv = [FREE; NBS];
    fatv[0] = FATSECT;
    fatv[1] = EOC;
    fatv[2] = EOC;
    fatv[3] = EOC;
    let mut i = 0;
    while i < nb {
        fatv[4 + i] = if i + 1 < nb { (5 + i) as u32 } else { EOC };
        // contents of b: first and last sector symbolic, the middle concrete (keeps the query small)
        if i == 0 || i + 1 == nb {
            let fill: [u8; SEC] = kani::any();
            data[soff((4 + i) as u32)..soff((4 + i) as u32) + SEC].copy_from_slice(&fill);
        } else {
            let mut k = 0;
            while k < SEC { data[soff((4 + i) as u32) + k] = (i as u8) ^ 0x5a; k += 64; }
        }
        i += 1;
    }
    i = 0;
    while i < NBS { put32(&mut data, soff(0) + 4 * i, fatv[i]); i += 1; }
    data[soff(2)..soff(2) + SEC].copy_from_slice(&ff);
    put32(&mut data, soff(2), 1);
    put32(&mut data, soff(2) + 4, EOC);
    let fill: [u8; 128] = kani::any(); // s: 100 bytes + 28 bytes of arbitrary slack
    data[soff(3)..soff(3) + 128].copy_from_slice(&fill);
    let mut em = [em_blank(); 4];
    em[0].ty = 5; em[0].nlen = 10;
    let rn = b"Root Entry";
    let mut k = 0;
    while k < 10 { em[0].name[k] = rn[k]; k += 1; }
    em[0].color = 1; em[0].child = 2; em[0].start = 3; em[0].len = 128;
    em[1].ty = 2; em[1].nlen = 1; em[1].name[0] = b'b'; em[1].color = 1;
    em[1].start = if nb > 0 { 4 } else { EOC }; em[1].len = b_len;
    em[2].ty = 2; em[2].nlen = 1; em[2].name[0] = b's'; em[2].color = 1; em[2].start = 0; em[2].len = 100; em[2].left = 1;
    let mut entries: Vec<DirEntry> = Vec::with_capacity(5);
    let mut s = 0;
    while s < 4 {
        let b = enc(&em[s]);
        let off = soff(1) + DIRENT * s;
        data[off..off + DIRENT].copy_from_slice(&b);
        entries.push(to_dirent(&em[s]));
        s += 1;
    }
    put32(&mut data, 44, 1); put32(&mut data, 48, 1); put32(&mut data, 60, 2); put32(&mut data, 64, 1); put32(&mut data, 76, 0);
    let mut fat = Vec::with_capacity(NBS + 12);
    let mut free = Vec::with_capacity(NBS + 12);
    i = 0;
    while i < NBS {
        fat.push(fatv[i]);
        if fatv[i] == FREE { free.push(i as u32); }
        i += 1;
    }
    let mut mf = Vec::with_capacity(80);
    mf.push(1);
    mf.push(EOC);
    BigParts { data, len: SEC * (1 + NBS), fat, free, entries, mf, nb }
}

pub fn big_assemble<F>(file: F, p: &mut BigParts) -> MiniAllocator<F> {
    let sectors = Sectors::new(Version::V3, p.len as u64, file);
    let alloc = aacc::mk(sectors, Vec::new(), vec![0u32], std::mem::take(&mut p.fat), std::mem::take(&mut p.free));
    let dir = dacc::mk(alloc, std::mem::take(&mut p.entries), 1);
    macc::mk(dir, std::mem::take(&mut p.mf), 2, Vec::new())
}

/// Byte p of the stream in slot `slot`, by an independent walk over the image.
pub fn big_byte(data: &[u8; NB], slot: usize, p: u64) -> u8 {
    let eoff = soff(1) + DIRENT * slot;
    let start = get32(&data[..], eoff + 116);
    let len = get64(&data[..], eoff + 120);
    assert!(p < len);
    if len < 4096 {
        let mfs = get32(&data[..], 60);
        let mut ms = start;
        let mut k = p / MINI as u64;
        let mut g = 0;
        while k > 0 && g < 70 {
            ms = get32(&data[..], soff(mfs) + 4 * ms as usize);
            k -= 1;
            g += 1;
        }
        let mut rs = get32(&data[..], soff(1) + 116);
        let mut hops = ms as usize / 8;
        g = 0;
        while hops > 0 && g < 16 {
            rs = get32(&data[..], soff(0) + 4 * rs as usize);
            hops -= 1;
            g += 1;
        }
        data[soff(rs) + MINI * (ms as usize % 8) + (p % MINI as u64) as usize]
    } else {
        let mut sct = start;
        let mut k = p / SEC as u64;
        let mut g = 0;
        while k > 0 && g < 16 {
            sct = get32(&data[..], soff(0) + 4 * sct as usize);
            k -= 1;
            g += 1;
        }
        data[soff(sct) + (p % SEC as u64) as usize]
    }
}

/// C03: placement by the cutoff and chain length for `slot`, on the caches.
pub fn big_placement<F>(m: &MiniAllocator<F>, slot: usize) {
    let dir = macc::directory(m);
    let e = &dacc::dir_entries(dir)[slot];
    let fat = aacc::fat(dacc::allocator(dir));
    let mf = macc::minifat(m);
    if e.stream_len == 0 {
        assert!(e.start_sector == EOC, "C03: empty stream has a chain");
        return;
    }
    let mut n = 0u64;
    let mut cur = e.start_sector;
    if e.stream_len < 4096 {
        while cur != EOC && n <= 70 {
            assert!((cur as usize) < mf.len() && mf[cur as usize] != FREE, "C03: a stream shorter than 4096 bytes is not in a valid mini chain (placement by the cutoff)");
            cur = mf[cur as usize];
            n += 1;
        }
        assert!(n == (e.stream_len + 63) / 64, "C03: mini chain length does not match the stream size");
    } else {
        while cur != EOC && n <= 20 {
            assert!((cur as usize) < fat.len() && cur >= 3 && fat[cur as usize] <= EOC && fat[cur as usize] != FATSECT && fat[cur as usize] != FREE, "C03: a stream of 4096 bytes or more is not in a valid regular chain (placement by the cutoff)");
            cur = fat[cur as usize];
            n += 1;
        }
        assert!(n == (e.stream_len + 511) / 512, "C03: regular chain length does not match the stream size");
    }
}

fn s_untouched(data: &[u8; NB], before: &[u8; NB]) {
    // s = slot 2, mini sectors 0->1 of sector 3, 100 bytes; its entry unchanged
    let eoff = soff(1) + DIRENT * 2;
    assert!(get32(&data[..], eoff + 116) == 0 && get64(&data[..], eoff + 120) == 100, "C07: the other stream's entry changed");
    let q = any_usize_below(100);
    assert!(big_byte(data, 2, q as u64) == before[soff(3) + q], "C07/C08: the other stream's bytes changed");
}

// ------------------------------------------------ resize of the large stream b
macro_rules! big_resize_b {
    ($name:ident, $old:expr, $new:expr) => {
        #[kani::proof]
        #[kani::stub(std::fmt::format, stub_format)]
        #[kani::stub(std::io::copy, stub_io_copy)]
        #[kani::unwind(140)]
        fn $name() {
            let mut p = big_parts($old);
            let before: [u8; NB] = p.data;
            let file = ArrFile::new(p.data, p.len);
            let mut m: MiniAllocator<FB> = big_assemble(file, &mut p);
            let new: u64 = $new;
            let r = sacc::resize(&mut m, 1, new);
            assert!(r.is_ok(), "C01: resize failed on a well-formed state");
            let e_len = dacc::dir_entries(macc::directory(&m))[1].stream_len;
            assert!(e_len == new, "C01/C06: length after set_len");
            big_placement(&m, 1);
            let data = &m.inner().data;
            if new > 0 {
                let q: u64 = kani::any();
                kani::assume(q < new);
                let got = big_byte(data, 1, q);
                let old: u64 = $old;
                if q < old {
                    assert!(got == before[soff(4) + q as usize], "C01: kept byte changed by resize");
                } else {
                    assert!(got == 0, "C08: byte gained by growing the stream is not zero");
                }
            }
            s_untouched(data, &before);
            // C15: sectors that are no longer needed are FREE again
            let fat = aacc::fat(dacc::allocator(macc::directory(&m)));
            let keep = if new >= 4096 { ((new + 511) / 512) as usize } else { 0 };
            let mut ok = true;
            let mut i = keep;
            while i < p.nb {
                ok &= fat[4 + i] == FREE;
                i += 1;
            }
            assert!(ok || new < 4096 && new > 0, "C15/C03: sectors released by shrinking are not FREE");
            kani::cover!(true, "end");
            std::mem::forget(m);
        }
    };
}
// b is exactly at the cutoff (8 sectors): it is a *regular* stream
big_resize_b!(big_4096_to_100, 4096, 100);
big_resize_b!(big_4096_to_0, 4096, 0);
big_resize_b!(big_4096_to_5000, 4096, 5000);
// b = 5000 bytes (10 sectors) shrunk to the cutoff and next to it
big_resize_b!(big_5000_to_4096, 5000, 4096);
big_resize_b!(big_5000_to_4097, 5000, 4097);
big_resize_b!(big_5000_to_4095, 5000, 4095);

// --------------------------------- small stream s grown across the cutoff (case 2c)
macro_rules! big_grow_s {
    ($name:ident, $new:expr) => {
        #[kani::proof]
        #[kani::stub(std::fmt::format, stub_format)]
        #[kani::stub(std::io::copy, stub_io_copy)]
        #[kani::unwind(140)]
        fn $name() {
            let mut p = big_parts(0);
            let before: [u8; NB] = p.data;
            let file = ArrFile::new(p.data, p.len);
            let mut m: MiniAllocator<FB> = big_assemble(file, &mut p);
            let new: u64 = $new;
            let r = sacc::resize(&mut m, 2, new);
            assert!(r.is_ok(), "C01: resize failed on a well-formed state");
            assert!(dacc::dir_entries(macc::directory(&m))[2].stream_len == new, "C01/C06: length after set_len");
            big_placement(&m, 2);
            let data = &m.inner().data;
            let q: u64 = kani::any();
            kani::assume(q < new);
            let got = big_byte(data, 2, q);
            if q < 100 {
                assert!(got == before[soff(3) + q as usize], "C01: kept byte changed when the stream moved out of the mini stream");
            } else {
                assert!(got == 0, "C08: byte gained by growing the stream across the 4096 cutoff is not zero (stale slack of the last mini sector)");
            }
            // the mini stream no longer holds anything: MiniFAT empty, mini stream released
            assert!(macc::minifat(&m).len() == 0, "C15/C03: mini sectors of the migrated stream not released");
            kani::cover!(true, "end");
            std::mem::forget(m);
        }
    };
}
big_grow_s!(big_grow_100_to_4096, 4096);
big_grow_s!(big_grow_100_to_4200, 4200);

// ------------------------------------------------ remove_stream at the cutoff (API)
macro_rules! big_remove {
    ($name:ident, $len:expr) => {
        #[kani::proof]
        #[kani::stub(std::fmt::format, stub_format)]
        #[kani::stub(std::io::copy, stub_io_copy)]
        #[kani::stub(std::ffi::OsStr::to_str, stub_osstr_to_str)]
        #[kani::stub(crate::internal::path::cfb_uppercase_char, super::uptable::table_upper)]
        #[kani::unwind(140)]
        fn $name() {
            let mut p = big_parts($len);
            let before: [u8; NB] = p.data;
            let nb = p.nb;
            let file = PtrFile::over(&mut p.data, p.len);
            let m: MiniAllocator<PB> = big_assemble(file, &mut p);
            let mut c = CompoundFile { minialloc: Arc::new(RwLock::new(m)), max_buffer_size: 1024 };
            let r = c.remove_stream("/b");
            assert!(r.is_ok(), "C01: removing an existing stream failed");
            assert!(!c.exists("/B") && c.is_stream("/s"), "C01: namespace after remove_stream");
            {
                let g = c.minialloc.read().unwrap();
                let fat = aacc::fat(dacc::allocator(macc::directory(&g)));
                let mut ok = true;
                let mut i = 0;
                while i < nb {
                    ok &= fat[4 + i] == FREE;
                    i += 1;
                }
                assert!(ok, "C15/C03: sectors of the removed stream are not FREE");
                let mf = macc::minifat(&g);
                assert!(mf.len() == 2 && mf[0] == 1 && mf[1] == EOC, "C07: removing a large stream touched the MiniFAT (another stream's mini chain)");
                assert!(dacc::dir_entries(macc::directory(&g))[1].obj_type == ObjType::Unallocated, "C01: entry not released");
                s_untouched(g.inner().d(), &before);
            }
            kani::cover!(true, "end");
            std::mem::forget(c);
        }
    };
}
big_remove!(big_remove_4096, 4096);
big_remove!(big_remove_4097, 4097);
