// Header codec (header.rs) on 512 arbitrary bytes, both validation modes in
// one query (C05 no panic, C16 strict => permissive with the same meaning,
// C04 fields decoded as MS-CFB 2.2 says), and write_to layout (C02/C03).
use super::env::*;
use super::util::*;
use crate::internal::{Header, Validation, Version};
use std::io::ErrorKind;

pub type F512 = ArrFile<512>;

const MAGIC: [u8; 8] = [0xd0, 0xcf, 0x11, 0xe0, 0xa1, 0xb1, 0x1a, 0xe1];

/// Independent acceptance predicate for the fixed part of the header.
/// Returns (accepted by permissive, accepted by strict, is v4).
fn spec_header(b: &[u8; 512]) -> (bool, bool, bool) {
    let mut ok = true;
    let mut i = 0;
    while i < 8 {
        ok &= b[i] == MAGIC[i];
        i += 1;
    }
    let ver = get16(b, 26);
    ok &= get16(b, 28) == 0xfffe;
    ok &= ver == 3 || ver == 4;
    let v4 = ver == 4;
    ok &= get16(b, 30) == if v4 { 12 } else { 9 };
    ok &= get16(b, 32) == 6;
    ok &= get32(b, 56) == 4096;
    // DIFAT array: entries up to the first FREE must be regular sector ids
    let mut k = 0;
    let mut open = true;
    while k < 109 {
        let v = get32(b, 76 + 4 * k);
        if open {
            if v == FREE {
                open = false;
            } else if v > MAXREG {
                ok = false;
            }
        }
        k += 1;
    }
    let strict = ok && (v4 || get32(b, 40) == 0);
    (ok, strict, v4)
}

#[kani::proof]
#[kani::stub(std::fmt::format, stub_format)]
#[kani::unwind(112)]
fn hdr_parse_total() {
    let b: [u8; 512] = kani::any();
    let (p_ok, s_ok, v4) = spec_header(&b);
    let mut f = F512::new(b, 512);
    let rp = Header::read_from(&mut f, Validation::Permissive);
    f.pos = 0;
    let rs = Header::read_from(&mut f, Validation::Strict);
    assert!(rp.is_ok() == p_ok, "C16/C05/C04: permissive header acceptance differs from MS-CFB 2.2 plus the tolerated v3 directory-sector count");
    assert!(rs.is_ok() == s_ok, "C16/C04: strict header acceptance differs from MS-CFB 2.2");
    assert!(!rs.is_ok() || rp.is_ok(), "C16: strict accepts a header that permissive rejects");
    if let Err(e) = &rp {
        assert!(e.kind() == ErrorKind::InvalidData, "C05: wrong error kind");
    }
    if let Ok(h) = &rp {
        assert!((h.version == Version::V4) == v4, "C04: version");
        assert!(h.num_dir_sectors == if v4 { get32(&b, 40) } else { 0 }, "C16/C04: directory sector count (ignored for v3)");
        assert!(h.num_fat_sectors == get32(&b, 44), "C04: FAT sector count");
        assert!(h.first_dir_sector == get32(&b, 48), "C04: first directory sector");
        assert!(h.first_minifat_sector == get32(&b, 60), "C04: first MiniFAT sector");
        assert!(h.num_minifat_sectors == get32(&b, 64), "C04: MiniFAT sector count");
        let fd = get32(&b, 68);
        assert!(h.first_difat_sector == if fd == FREE { EOC } else { fd }, "C16/C04: first DIFAT sector (FREE tolerated as end of chain)");
        assert!(h.num_difat_sectors == get32(&b, 72), "C04: DIFAT sector count");
        // DIFAT entries: up to the first FREE verbatim, FREE afterwards
        let k = any_usize_below(109);
        let mut first_free = 109;
        let mut j = 0;
        while j < 109 {
            if first_free == 109 && get32(&b, 76 + 4 * j) == FREE {
                first_free = j;
            }
            j += 1;
        }
        let want = if k < first_free { get32(&b, 76 + 4 * k) } else { FREE };
        assert!(h.initial_difat_entries[k] == want, "C04/C16: header DIFAT entry decoded wrongly");
        if let Ok(hs) = &rs {
            assert!(hs.version == h.version && hs.num_dir_sectors == h.num_dir_sectors && hs.num_fat_sectors == h.num_fat_sectors
                && hs.first_dir_sector == h.first_dir_sector && hs.first_minifat_sector == h.first_minifat_sector
                && hs.num_minifat_sectors == h.num_minifat_sectors && hs.first_difat_sector == h.first_difat_sector
                && hs.num_difat_sectors == h.num_difat_sectors && hs.initial_difat_entries[k] == h.initial_difat_entries[k],
                "C16: strict and permissive views of the same header differ");
        }
    }
    kani::cover!(rs.is_ok(), "strict ok");
    kani::cover!(rp.is_ok() && !rs.is_ok(), "tolerated: v3 with a directory sector count");
    kani::cover!(!rp.is_ok(), "rejected");
}

#[kani::proof]
#[kani::stub(std::fmt::format, stub_format)]
#[kani::unwind(112)]
fn hdr_roundtrip() {
    let v4: bool = kani::any();
    let mut difat = [FREE; 109];
    let n = 2;
    let mut i = 0;
    while i < n {
        let v: u32 = kani::any();
        kani::assume(v <= MAXREG);
        difat[i] = v;
        i += 1;
    }
    let h = Header {
        version: if v4 { Version::V4 } else { Version::V3 },
        num_dir_sectors: if v4 { kani::any() } else { 0 },
        num_fat_sectors: kani::any(),
        first_dir_sector: kani::any(),
        first_minifat_sector: kani::any(),
        num_minifat_sectors: kani::any(),
        first_difat_sector: { let v: u32 = kani::any(); kani::assume(v != FREE); v },
        num_difat_sectors: kani::any(),
        initial_difat_entries: difat,
    };
    let mut f = F512::new([0xEE; 512], 0);
    assert!(h.write_to(&mut f).is_ok());
    assert!(f.len == 512, "C03: header is not 512 bytes");
    let b = f.data;
    let (p_ok, s_ok, _) = spec_header(&b);
    assert!(p_ok && s_ok, "C03: header written by the library is not a valid MS-CFB header");
    assert!(get32(&b, 44) == h.num_fat_sectors && get32(&b, 48) == h.first_dir_sector && get32(&b, 60) == h.first_minifat_sector
        && get32(&b, 64) == h.num_minifat_sectors && get32(&b, 68) == h.first_difat_sector && get32(&b, 72) == h.num_difat_sectors
        && get32(&b, 40) == h.num_dir_sectors, "C02/C03: header field at the wrong offset");
    let mut z = true;
    let mut k = 8;
    while k < 24 { z &= b[k] == 0; k += 1; }
    k = 34;
    while k < 40 { z &= b[k] == 0; k += 1; }
    assert!(z && get32(&b, 52) == 0, "C03: reserved header fields are not zero");
    kani::cover!(true, "end");
}
