// C16 at the level of open_internal: the deviations that only the glue of
// `open` (not a component parser) decides.  On the foreign-layout image of
// h_open.rs each deviation is planted in the bytes:
//   D1 header: number of FAT sectors wrong (2, actual 1)
//   D2 header: number of MiniFAT sectors wrong (3, actual 1)
//   D3 header: non-zero directory sector count in a version 3 file
//   D5 the FAT sector's own FAT cell is not marked FATSECT
//   D6 the FAT is zero-padded beyond the last sector of the file
//   D7 two adjacent red nodes in the sibling tree
//   D8 over-long MiniFAT (an entry beyond the mini stream's length)
// `open_dev_all_permissive`: ALL of them at once are accepted by permissive
// open and the caches / lookups / stream bytes are those of the undamaged
// file.  `open_dev_strict_dN`: each one alone is rejected by strict open.
use super::env::*;
use super::h_dirent::*;
use super::h_open::*;
use super::util::*;
use crate::internal::alloc::vacc as aacc;
use crate::internal::directory::vacc as dacc;
use crate::internal::minialloc::vacc as macc;
use crate::internal::stream::vacc as sacc;
use crate::internal::{ObjType, Validation};
use crate::CompoundFile;

pub const D1: u32 = 1;
pub const D2: u32 = 2;
pub const D3: u32 = 4;
pub const D5: u32 = 8;
pub const D6: u32 = 16;
pub const D7: u32 = 32;
pub const D8: u32 = 64;

fn plant(img: &mut OpenImg, dev: u32) {
    if dev & D1 != 0 { put32(&mut img.data, 44, 2); }
    if dev & D2 != 0 { put32(&mut img.data, 64, 3); }
    if dev & D3 != 0 { put32(&mut img.data, 40, 5); }
    if dev & D5 != 0 { put32(&mut img.data, soff(1) + 4, EOC); }
    if dev & D6 != 0 {
        let mut i = 5;
        while i < 128 { put32(&mut img.data, soff(1) + 4 * i, 0); i += 1; }
    }
    if dev & D7 != 0 {
        // o (slot 2, the top of the sibling tree) becomes red; its children d and s are red already
        img.data[soff(4) + DIRENT * 2 + 67] = 0;
        img.em[2].color = 0;
    }
    if dev & D8 != 0 { put32(&mut img.data, soff(2) + 12, EOC); }
}

macro_rules! open_dev {
    ($name:ident, $strict:expr, $dev:expr) => {
        #[kani::proof]
        #[kani::stub(std::fmt::format, stub_format)]
        #[kani::stub(crate::internal::path::cfb_uppercase_char, super::uptable::table_upper)]
        #[kani::unwind(140)]
        fn $name() {
            let mut img = open_image(192, 2);
            plant(&mut img, $dev);
            let em = img.em;
            let before: [u8; NO] = img.data;
            let file = PtrFile::over(&mut img.data, SEC * 6);
            let v = if $strict { Validation::Strict } else { Validation::Permissive };
            let r = CompoundFile::open_internal(file, v, 1024);
            if $strict {
                assert!(r.is_err(), "C16: strict open accepts a file with a deviation it documents as rejected");
                std::mem::forget(r);
            } else {
                assert!(r.is_ok(), "C16: permissive open rejects a file whose only faults are deviations it documents as tolerated");
                let c = r.unwrap();
                {
                    let g = c.minialloc.read().unwrap();
                    let fat = aacc::fat(dacc::allocator(macc::directory(&g)));
                    assert!(fat.len() == 5 && fat[0] == EOC && fat[1] == FATSECT && fat[2] == EOC && fat[3] == EOC && fat[4] == 0,
                        "C16: FAT seen through permissive open differs from the undamaged file's (unmarked FAT sector repaired, zero padding stripped, last sector's cell kept)");
                    let mf = macc::minifat(&g);
                    assert!(mf.len() == 3 && mf[0] == 1 && mf[1] == EOC && mf[2] == EOC, "C16: MiniFAT seen through permissive open differs from the undamaged file's (over-long MiniFAT truncated)");
                    let ents = dacc::dir_entries(macc::directory(&g));
                    assert!(ents.len() == 8, "C16: directory entries");
                    let mut ok = true;
                    let mut i = 0;
                    while i < 4 {
                        ok &= same(&ents[i], &em[i]);
                        ok &= ents[4 + i].obj_type == ObjType::Unallocated;
                        i += 1;
                    }
                    assert!(ok, "C16: directory seen through permissive open differs from the undamaged file's");
                }
                {
                    let mut g = c.minialloc.write().unwrap();
                    assert!(g.stream_id_for_name_chain(&["S"]) == Some(1) && g.stream_id_for_name_chain(&["o"]) == Some(2)
                        && g.stream_id_for_name_chain(&["D"]) == Some(3) && g.stream_id_for_name_chain(&["x"]) == None,
                        "C16/C04: lookups in a tree with adjacent red nodes");
                    let mut buf = [0u8; 100];
                    let r = sacc::read_data(&mut g, 1, 0, &mut buf);
                    assert!(r.is_ok() && r.unwrap() == 100, "C16: reading a stream failed");
                    let q = any_usize_below(100);
                    assert!(buf[q] == before[soff(3) + q], "C16: stream bytes differ from the undamaged file's");
                }
                std::mem::forget(c);
            }
            kani::cover!(true, "end");
        }
    };
}
open_dev!(open_dev_all_permissive, false, D1 | D2 | D3 | D5 | D6 | D7 | D8);
open_dev!(open_dev_strict_d1, true, D1);
open_dev!(open_dev_strict_d2, true, D2);
open_dev!(open_dev_strict_d3, true, D3);
open_dev!(open_dev_strict_d5, true, D5);
open_dev!(open_dev_strict_d6, true, D6);
open_dev!(open_dev_strict_d7, true, D7);
open_dev!(open_dev_strict_d8, true, D8);
