// MiniAllocator layer (minialloc.rs): one step from a well-formed state with
// a concrete layout (FAT sector 0, directory sector 1, MiniFAT sector 2,
// mini stream in sector 3 [and 4]) and symbolic mini sector contents.
// Serves C02 (MiniFAT / root entry / header write-through), C03 (MiniFAT and
// mini stream well-formedness), C15 (reuse, no growth), C08 (allocation does
// not leak other data: checked at the stream layer), C07 (frame).
use super::env::*;
use super::h_dirent::*;
use super::util::*;
use crate::internal::alloc::vacc as aacc;
use crate::internal::directory::vacc as dacc;
use crate::internal::minialloc::vacc as macc;
use crate::internal::{DirEntry, Directory, MiniAllocator, Sectors, Version};

pub const NMS: usize = 5; // sectors 0..4 present in the pre-state (4 may be FREE)
pub const NM: usize = SEC * (1 + NMS + 2); // room for two appended sectors
pub type FM = ArrFile<NM>;
pub const MAXMINI: usize = 16;

pub struct MiniPre {
    pub fat: [u32; NMS],
    pub minifat: [u32; MAXMINI],
    pub nmini: usize,
    pub root_start: u32,
    pub minifat_start: u32,
    pub em: [EM; 4],
}

/// `two`: the mini stream occupies sectors 3 and 4 (16 mini sectors) instead of sector 3 only.
/// `bare`: no MiniFAT and no mini stream yet (fresh file): sectors 2..4 are FREE.
pub fn mk_mini(minifat: &[u32], two: bool, bare: bool) -> (MiniAllocator<FM>, MiniPre) {
    let nmini = minifat.len();
    let mut pre = MiniPre {
        fat: [FATSECT, EOC, EOC, EOC, FREE],
        minifat: [FREE; MAXMINI],
        nmini,
        root_start: 3,
        minifat_start: 2,
        em: [em_blank(); 4],
    };
    if two {
        pre.fat[3] = 4;
        pre.fat[4] = EOC;
    }
    if bare {
        pre.fat = [FATSECT, EOC, FREE, FREE, FREE];
        pre.root_start = EOC;
        pre.minifat_start = EOC;
    } else if nmini == 0 {
        // every small stream was removed earlier: the MiniFAT chain still
        // exists (all FREE), the mini stream has no sectors
        pre.fat = [FATSECT, EOC, EOC, FREE, FREE];
        pre.root_start = EOC;
    }
    let mut data = [0u8; NM];
    let ff = [0xffu8; SEC];
    data[soff(0)..soff(0) + SEC].copy_from_slice(&ff);
    let mut i = 0;
    while i < NMS {
        put32(&mut data, soff(0) + 4 * i, pre.fat[i]);
        i += 1;
    }
    // MiniFAT sector
    if !bare {
        data[soff(2)..soff(2) + SEC].copy_from_slice(&ff);
        i = 0;
        while i < nmini {
            pre.minifat[i] = minifat[i];
            put32(&mut data, soff(2) + 4 * i, minifat[i]);
            i += 1;
        }
        // mini stream contents: arbitrary
        let fill: [u8; SEC] = kani::any();
        if nmini > 0 {
            data[soff(3)..soff(3) + SEC].copy_from_slice(&fill);
        }
        if two {
            let fill2: [u8; SEC] = kani::any();
            data[soff(4)..soff(4) + SEC].copy_from_slice(&fill2);
        }
    }
    // directory: root + one stream "s" (slot 1) + two unallocated
    let mut root = em_blank();
    root.ty = 5;
    root.nlen = 10;
    let rn = b"Root Entry";
    let mut k = 0;
    while k < 10 { root.name[k] = rn[k]; k += 1; }
    root.color = 1;
    root.child = 1;
    root.start = pre.root_start;
    root.len = (MINI * nmini) as u64;
    let mut s1 = em_blank();
    s1.ty = 2;
    s1.nlen = 1;
    s1.name[0] = b's';
    s1.color = 1;
    s1.start = EOC;
    pre.em[0] = root;
    pre.em[1] = s1;
    let mut entries: Vec<DirEntry> = Vec::with_capacity(5);
    let mut s = 0;
    while s < 4 {
        let b = enc(&pre.em[s]);
        let off = soff(1) + DIRENT * s;
        data[off..off + DIRENT].copy_from_slice(&b);
        entries.push(to_dirent(&pre.em[s]));
        s += 1;
    }
    put32(&mut data, 44, 1);
    put32(&mut data, 48, 1);
    put32(&mut data, 60, pre.minifat_start);
    put32(&mut data, 64, if bare { 0 } else { 1 });
    put32(&mut data, 76, 0);
    let len = SEC * (1 + NMS);
    let file = ArrFile::new(data, len);
    let sectors = Sectors::new(Version::V3, len as u64, file);
    let mut fat = Vec::with_capacity(NMS + 3);
    let mut free = Vec::with_capacity(NMS + 3);
    i = 0;
    while i < NMS {
        fat.push(pre.fat[i]);
        if pre.fat[i] == FREE { free.push(i as u32); }
        i += 1;
    }
    let alloc = aacc::mk(sectors, Vec::new(), vec![0u32], fat, free);
    let dir = dacc::mk(alloc, entries, 1);
    let mut mf = Vec::with_capacity(MAXMINI + 2);
    let mut mfree = Vec::with_capacity(MAXMINI + 2);
    i = 0;
    while i < nmini {
        mf.push(minifat[i]);
        if minifat[i] == FREE { mfree.push(i as u32); }
        i += 1;
    }
    (macc::mk(dir, mf, pre.minifat_start, mfree), pre)
}

fn chain_len(fat: &Vec<u32>, start: u32) -> usize {
    let mut n = 0;
    let mut cur = start;
    while cur != EOC && n <= fat.len() {
        assert!((cur as usize) < fat.len(), "C03: chain leaves the FAT");
        cur = fat[cur as usize];
        n += 1;
    }
    assert!(cur == EOC, "C03: chain does not terminate");
    n
}

fn nth(fat: &Vec<u32>, start: u32, k: usize) -> u32 {
    let mut cur = start;
    let mut i = 0;
    while i < k {
        cur = fat[cur as usize];
        i += 1;
    }
    cur
}

/// Independent well-formedness + coherence of the mini layer after a step.
/// (Concrete loops over the small tables: with field-sensitive arrays a
/// concrete index costs nothing, a symbolic one a 4096-way case split.)
pub fn check_mini(m: &MiniAllocator<FM>) {
    let dir = macc::directory(m);
    let alloc = dacc::allocator(dir);
    let fat = aacc::fat(alloc);
    let f = m.inner();
    let mf = macc::minifat(m);
    let root = &dacc::dir_entries(dir)[0];
    let n = fat.len();
    assert!(n <= NMS + 2, "C03: more sectors than the step can have added");
    assert!(f.len == SEC * (1 + n), "C03: file length is not header + one sector per FAT entry");
    // FAT image == cache
    let mut ok = true;
    let mut j = 0;
    while j < NMS + 4 {
        let img = get32(&f.data, soff(0) + 4 * j);
        ok &= if j < n { img == fat[j] } else { img == FREE };
        j += 1;
    }
    assert!(ok, "C02: FAT cache differs from image");
    // header <-> MiniFAT chain
    let mstart = macc::minifat_start_sector(m);
    assert!(get32(&f.data, 60) == mstart, "C02/C03: header first MiniFAT sector differs from the allocator's");
    let mchain = chain_len(fat, mstart);
    assert!(get32(&f.data, 64) as usize == mchain, "C02/C03: header MiniFAT sector count differs from the MiniFAT chain length");
    assert!(mf.len() <= mchain * (SEC / 4), "C03: MiniFAT longer than its chain");
    assert!(mf.len() <= MAXMINI + 1, "C03: MiniFAT longer than the step can have made it");
    // MiniFAT image == cache (entries past the cached length are FREE); first sector of the chain suffices here
    if mchain > 0 {
        ok = true;
        let mut c = 0;
        while c < MAXMINI + 4 {
            let cell = get32(&f.data, soff(mstart) + 4 * c);
            ok &= if c < mf.len() { cell == mf[c] } else { cell == FREE };
            c += 1;
        }
        assert!(ok, "C02: MiniFAT cache cell differs from image cell");
    }
    // root entry: mini stream length, chain, write-through
    assert!(root.stream_len == (MINI * mf.len()) as u64, "C03: mini stream length differs from 64 x MiniFAT length");
    let rchain = chain_len(fat, root.start_sector);
    assert!(rchain == (root.stream_len as usize + SEC - 1) / SEC, "C03: root chain length does not match the mini stream length");
    assert!(get32(&f.data, soff(1) + 116) == root.start_sector, "C02: root start sector not written through");
    assert!(get64(&f.data, soff(1) + 120) == root.stream_len, "C02: root stream length not written through");
    // MiniFAT cells: in range, injective; free list = FREE cells exactly once
    let fl = macc::free_mini_sectors(m);
    let mut x = 0;
    let mut wf = true;
    let mut inj = true;
    let mut fre = true;
    while x < mf.len() {
        if mf[x] <= MAXREG {
            wf &= (mf[x] as usize) < mf.len() && mf[mf[x] as usize] != FREE;
            let mut y = 0;
            while y < mf.len() {
                inj &= x == y || mf[x] != mf[y];
                y += 1;
            }
        }
        let mut k = 0;
        let mut listed = 0;
        while k < fl.len() {
            if fl[k] as usize == x { listed += 1; }
            k += 1;
        }
        fre &= if mf[x] == FREE { listed == 1 } else { listed == 0 };
        x += 1;
    }
    assert!(wf, "C03: MiniFAT cell points outside the mini stream or into a FREE mini sector");
    assert!(inj, "C03: mini sector pointed to twice");
    assert!(fre, "C15/C03: mini free list is not exactly the set of FREE mini sectors");
    assert!(fl.len() <= mf.len(), "C15/C03: mini free list longer than the MiniFAT");
    if mf.len() > 0 {
        assert!(mf[mf.len() - 1] != FREE, "C03: trailing FREE entry kept in the MiniFAT cache");
    }
    // sectors
    let afl = aacc::free_sectors(alloc);
    let mut a = 0;
    wf = true;
    inj = true;
    fre = true;
    while a < n {
        if fat[a] <= MAXREG {
            wf &= (fat[a] as usize) < n && fat[fat[a] as usize] != FREE;
            let mut b = 0;
            while b < n {
                inj &= a == b || fat[a] != fat[b];
                b += 1;
            }
        }
        let mut k = 0;
        let mut listed = 0;
        while k < afl.len() {
            if afl[k] as usize == a { listed += 1; }
            k += 1;
        }
        fre &= if fat[a] == FREE { listed == 1 } else { listed == 0 };
        a += 1;
    }
    assert!(wf, "C03: FAT chain broken");
    assert!(inj, "C03: sector pointed to twice");
    assert!(fre, "C15/C03: free list is not exactly the set of FREE sectors");
}

// ------------------------------------------------------ allocate (begin/extend)
macro_rules! mini_alloc {
    ($name:ident, $mf:expr, $two:expr, $bare:expr, $extend_from:expr, $grow:expr) => {
        #[kani::proof]
        #[kani::stub(std::fmt::format, stub_format)]
        #[kani::stub(std::io::copy, stub_io_copy)]
        #[kani::unwind(130)]
        fn $name() {
            let mfa = $mf;
            let (mut m, pre) = mk_mini(&mfa, $two, $bare);
            let nsec0 = NMS;
            let had_free = { let mut h = false; let mut i = 0; while i < pre.nmini { if pre.minifat[i] == FREE { h = true; } i += 1; } h };
            let ext: i32 = $extend_from;
            let r = if ext >= 0 { m.extend_mini_chain(ext as u32) } else { m.begin_mini_chain() };
            assert!(r.is_ok(), "C01/C03: mini allocation failed on a well-formed state");
            let id = r.unwrap() as usize;
            let mf = macc::minifat(&m);
            assert!(id < mf.len() && mf[id] == EOC, "C03: fresh mini sector is not a chain end");
            if had_free {
                assert!(id < pre.nmini && pre.minifat[id] == FREE, "C15: free mini sector not reused");
                assert!(mf.len() == pre.nmini, "C15: MiniFAT grew although a free mini sector existed");
            } else {
                assert!(id == pre.nmini && mf.len() == pre.nmini + 1, "C03: new mini sector not appended at the end");
            }
            if ext >= 0 {
                // old chain end now links to the new mini sector
                let mut last = ext as usize;
                let mut g = 0;
                while pre.minifat[last] != EOC && g < MAXMINI { last = pre.minifat[last] as usize; g += 1; }
                assert!(mf[last] == id as u32, "C03: old mini chain end does not link to the new mini sector");
            }
            let mut j = 0;
            while j < pre.nmini {
                assert!(j == id || (ext >= 0 && mf[j] == id as u32) || mf[j] == pre.minifat[j], "C07/C03: unrelated MiniFAT cell changed");
                j += 1;
            }
            let nsec = aacc::fat(dacc::allocator(macc::directory(&m))).len();
            let want_grow: usize = $grow;
            assert!(nsec == nsec0 + want_grow || (nsec == nsec0 && want_grow <= 0), "C15/C03: unexpected number of sectors after mini allocation");
            assert!(nsec - nsec0 <= want_grow, "C15: file grew more than the allocation requires");
            if !$bare {
                // every instance has fewer MiniFAT entries than one MiniFAT sector holds: its chain has room
                let fatc = aacc::fat(dacc::allocator(macc::directory(&m)));
                assert!(chain_len(fatc, macc::minifat_start_sector(&m)) == 1, "C15: the MiniFAT chain was extended although its sector had room (a free sector was consumed: repeating the cycle grows the file)");
            }
            check_mini(&m);
            kani::cover!(true, "end");
            std::mem::forget(m);
        }
    };
}
// reuse of a free mini sector in the middle (write-through of the reused cell)
mini_alloc!(mini_begin_reuse, [EOC, FREE, EOC], false, false, -1, 0);
mini_alloc!(mini_extend_reuse, [2, FREE, EOC], false, false, 0, 0);
// append inside the existing mini stream sector
mini_alloc!(mini_begin_append, [1, EOC, EOC], false, false, -1, 0);
// mini stream sector full (8 mini sectors): the root chain gets another sector (sector 4 is FREE: reused, no growth)
mini_alloc!(mini_begin_full8, [1, 2, 3, 4, 5, 6, 7, EOC], false, false, -1, 0);
// 16 mini sectors in two sectors, all used: a new sector must be appended
mini_alloc!(mini_extend_full16, [1, 2, 3, 4, 5, 6, 7, 8, 9, 10, 11, 12, 13, 14, 15, EOC], true, false, 0, 1);
// fresh file: no MiniFAT chain, no mini stream (sectors 2..4 FREE are reused)
mini_alloc!(mini_begin_bare, [], false, true, -1, 0);
// C15: everything freed earlier (MiniFAT empty but chains exist): must not grow
mini_alloc!(mini_begin_after_empty, [], false, false, -1, 0);

// ------------------------------------------------------------- free mini chain
macro_rules! mini_free {
    ($name:ident, $mf:expr, $two:expr, $start:expr, $after:expr, $newlen:expr) => {
        #[kani::proof]
        #[kani::stub(std::fmt::format, stub_format)]
        #[kani::stub(std::io::copy, stub_io_copy)]
        #[kani::unwind(130)]
        fn $name() {
            let mfa = $mf;
            let (mut m, pre) = mk_mini(&mfa, $two, false);
            let start: u32 = $start;
            let after: bool = $after;
            let r = if after { m.free_mini_chain_after(start) } else { m.free_mini_chain(start) };
            assert!(r.is_ok(), "C01/C03: freeing a mini chain failed on a well-formed state");
            let mf = macc::minifat(&m);
            let newlen: usize = $newlen;
            assert!(mf.len() == newlen, "C15/C03: MiniFAT length after free is not the index of the last used mini sector + 1");
            // the freed chain's cells are FREE (or trimmed away)
            let mut cur = start as usize;
            let mut g = 0;
            let mut first = true;
            while g < MAXMINI {
                if after && first {
                    assert!(mf[cur] == EOC, "C03: truncated mini chain not terminated");
                } else if cur < mf.len() {
                    assert!(mf[cur] == FREE, "C15/C03: mini sector of a freed chain is not FREE");
                }
                first = false;
                if pre.minifat[cur] == EOC { break; }
                cur = pre.minifat[cur] as usize;
                g += 1;
            }
            check_mini(&m);
            kani::cover!(true, "end");
            std::mem::forget(m);
        }
    };
}
// chain 0->1 at the tail of [.,.] with another chain {2}? no: tail chain of two: [EOC, 2, EOC]: free chain starting at 1 (1->2): MiniFAT shrinks to 1
mini_free!(mini_free_tail2, [EOC, 2, EOC], false, 1, false, 1);
// free everything: MiniFAT becomes empty, mini stream empty
mini_free!(mini_free_all, [1, EOC], false, 0, false, 0);
// free a chain in the middle: cells become FREE, length unchanged
mini_free!(mini_free_middle, [2, EOC, EOC], false, 0, false, 2);
// truncate after the first mini sector of 0->1->2
mini_free!(mini_free_after, [1, 2, EOC], false, 0, true, 1);
// shrinking across a sector boundary (9 -> 8 mini sectors: second mini stream sector released)
mini_free!(mini_free_cross, [EOC, EOC, EOC, EOC, EOC, EOC, EOC, EOC, EOC], true, 8, false, 8);
