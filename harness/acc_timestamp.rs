#![allow(dead_code)]
use super::*;
pub(crate) fn mk(v: u64) -> Timestamp { Timestamp(v) }
pub(crate) fn any_now() -> Timestamp { Timestamp(kani::any()) }
