// Instrumented single-threaded model of std::sync::RwLock for the C14 check
// (overlay variant `lock`: the three `use std::sync::{.. RwLock ..}` lines of
// the crate are redirected here).  It counts live guards and asserts that no
// guard of this lock is live whenever the lock is acquired again: std's
// RwLock may block a second read() of the same thread once a writer is
// queued (it does on Linux), so a nested acquisition is a schedule that
// deadlocks.  try_read/try_write may fail at any time (another thread could
// hold the lock), so code that unwraps them panics under this model.
#![allow(dead_code)]
use std::cell::{Cell, UnsafeCell};
use std::ops::{Deref, DerefMut};

pub struct RwLock<T> {
    inner: UnsafeCell<T>,
    live: Cell<u32>,
}
unsafe impl<T: Send> Send for RwLock<T> {}
unsafe impl<T: Send + Sync> Sync for RwLock<T> {}

pub struct RwLockReadGuard<'a, T> {
    lock: &'a RwLock<T>,
}
pub struct RwLockWriteGuard<'a, T> {
    lock: &'a RwLock<T>,
}

#[derive(Debug)]
pub struct WouldBlock;

impl<T> RwLock<T> {
    pub fn new(t: T) -> RwLock<T> {
        RwLock { inner: UnsafeCell::new(t), live: Cell::new(0) }
    }
    fn acquire(&self) {
        assert!(self.live.get() == 0, "C14: lock acquired while a guard of the same lock is live in this thread (deadlock once a writer is queued)");
        self.live.set(1);
    }
    pub fn read(&self) -> Result<RwLockReadGuard<'_, T>, WouldBlock> {
        self.acquire();
        Ok(RwLockReadGuard { lock: self })
    }
    pub fn write(&self) -> Result<RwLockWriteGuard<'_, T>, WouldBlock> {
        self.acquire();
        Ok(RwLockWriteGuard { lock: self })
    }
    pub fn try_read(&self) -> Result<RwLockReadGuard<'_, T>, WouldBlock> {
        if kani::any() {
            return Err(WouldBlock); // another thread holds or waits for the write lock
        }
        self.read()
    }
    pub fn try_write(&self) -> Result<RwLockWriteGuard<'_, T>, WouldBlock> {
        if kani::any() {
            return Err(WouldBlock);
        }
        self.write()
    }
    pub fn into_inner(self) -> Result<T, WouldBlock> {
        Ok(self.inner.into_inner())
    }
    pub fn live_guards(&self) -> u32 {
        self.live.get()
    }
}

impl<'a, T> Deref for RwLockReadGuard<'a, T> {
    type Target = T;
    fn deref(&self) -> &T {
        unsafe { &*self.lock.inner.get() }
    }
}
impl<'a, T> Drop for RwLockReadGuard<'a, T> {
    fn drop(&mut self) {
        self.lock.live.set(0);
    }
}
impl<'a, T> Deref for RwLockWriteGuard<'a, T> {
    type Target = T;
    fn deref(&self) -> &T {
        unsafe { &*self.lock.inner.get() }
    }
}
impl<'a, T> DerefMut for RwLockWriteGuard<'a, T> {
    fn deref_mut(&mut self) -> &mut T {
        unsafe { &mut *self.lock.inner.get() }
    }
}
impl<'a, T> Drop for RwLockWriteGuard<'a, T> {
    fn drop(&mut self) {
        self.lock.live.set(0);
    }
}
