// CompoundFile::open_internal on a small image with an unusual but valid
// layout written "by another implementation": FAT in sector 1 (not 0),
// directory chain running backwards 4 -> 0 (the physically last sector links
// to sector 0), unallocated directory slots, MiniFAT in sector 2, mini stream
// in sector 3.  Contents and metadata symbolic.  C04 (any legal layout is read
// correctly), C02 (reopening yields the caches the image encodes), C16 (strict
// and permissive agree), C05; and C11: a bogus first-MiniFAT-sector field that
// permissive open accepts must not make later writes panic.
use super::env::*;
use super::h_dirent::*;
use super::util::*;
use crate::internal::alloc::vacc as aacc;
use crate::internal::directory::vacc as dacc;
use crate::internal::minialloc::vacc as macc;
use crate::internal::stream::vacc as sacc;
use crate::internal::{ObjType, Validation};
use crate::CompoundFile;

pub const NO: usize = SEC * (1 + 5 + 3);
pub type PO = PtrFile<NO>;

pub struct OpenImg {
    pub data: [u8; NO],
    pub em: [EM; 4],
}

pub fn open_image(root_len: u64, first_minifat: u32) -> OpenImg {
    let mut data = [0u8; NO];
    // header
    let magic = [0xd0u8, 0xcf, 0x11, 0xe0, 0xa1, 0xb1, 0x1a, 0xe1];
    let mut i = 0;
    while i < 8 { data[i] = magic[i]; i += 1; }
    put16(&mut data, 24, 0x3e);
    put16(&mut data, 26, 3);
    put16(&mut data, 28, 0xfffe);
    put16(&mut data, 30, 9);
    put16(&mut data, 32, 6);
    put32(&mut data, 44, 1); // FAT sectors
    put32(&mut data, 48, 4); // first directory sector
    put32(&mut data, 56, 4096);
    put32(&mut data, 60, first_minifat);
    put32(&mut data, 64, 1);
    put32(&mut data, 68, EOC);
    put32(&mut data, 72, 0);
    let ff = [0xffu8; SEC];
    data[76..512].copy_from_slice(&ff[..436]);
    put32(&mut data, 76, 1); // DIFAT[0] = sector 1
    // FAT (sector 1): [EOC, FATSECT, EOC, EOC, 0]
    data[soff(1)..soff(1) + SEC].copy_from_slice(&ff);
    put32(&mut data, soff(1), EOC);
    put32(&mut data, soff(1) + 4, FATSECT);
    put32(&mut data, soff(1) + 8, EOC);
    put32(&mut data, soff(1) + 12, EOC);
    put32(&mut data, soff(1) + 16, 0);
    // MiniFAT (sector 2): s = 0 -> 1 (100 bytes), o = 2 (64 bytes)
    data[soff(2)..soff(2) + SEC].copy_from_slice(&ff);
    put32(&mut data, soff(2), 1);
    put32(&mut data, soff(2) + 4, EOC);
    put32(&mut data, soff(2) + 8, EOC);
    // mini stream (sector 3): arbitrary
    let fill: [u8; SEC] = kani::any();
    data[soff(3)..soff(3) + SEC].copy_from_slice(&fill);
    // directory: slots 0..3 in sector 4, slots 4..7 (unallocated) in sector 0
    let mut em = [em_blank(); 4];
    em[0].ty = 5; em[0].nlen = 10;
    let rn = b"Root Entry";
    let mut k = 0;
    while k < 10 { em[0].name[k] = rn[k]; k += 1; }
    em[0].color = 1; em[0].child = 2; em[0].start = if root_len > 0 { 3 } else { EOC }; em[0].len = root_len;
    em[0].state = kani::any(); em[0].mt = kani::any();
    // tree: o (slot 2, black) with red children d (slot 3) and s (slot 1)
    em[1].ty = 2; em[1].nlen = 1; em[1].name[0] = b's'; em[1].color = 0; em[1].start = 0; em[1].len = 100; em[1].state = kani::any();
    em[2].ty = 2; em[2].nlen = 1; em[2].name[0] = b'o'; em[2].color = 1; em[2].start = 2; em[2].len = 64; em[2].left = 3; em[2].right = 1;
    em[3].ty = 1; em[3].nlen = 1; em[3].name[0] = b'd'; em[3].color = 0;
    em[3].state = kani::any(); em[3].ct = kani::any(); em[3].mt = kani::any(); em[3].d1 = kani::any(); em[3].d4 = kani::any();
    if root_len == 0 {
        em[1].start = EOC; em[1].len = 0;
        em[2].start = EOC; em[2].len = 0;
    }
    let blank = enc(&em_blank());
    let mut s = 0;
    while s < 4 {
        let b = enc(&em[s]);
        data[soff(4) + DIRENT * s..soff(4) + DIRENT * (s + 1)].copy_from_slice(&b);
        data[soff(0) + DIRENT * s..soff(0) + DIRENT * (s + 1)].copy_from_slice(&blank);
        s += 1;
    }
    OpenImg { data, em }
}

macro_rules! open_valid {
    ($name:ident, $strict:expr) => {
        #[kani::proof]
        #[kani::stub(std::fmt::format, stub_format)]
        #[kani::stub(crate::internal::path::cfb_uppercase_char, super::uptable::table_upper)]
        #[kani::unwind(140)]
        fn $name() {
            let mut img = open_image(192, 2);
            let em = img.em;
            let before: [u8; NO] = img.data;
            let file = PtrFile::over(&mut img.data, SEC * 6);
            let v = if $strict { Validation::Strict } else { Validation::Permissive };
            let r = CompoundFile::open_internal(file, v, 1024);
            assert!(r.is_ok(), "C04/C16: a spec-valid file with an unusual layout (FAT in sector 1, directory chain 4 -> 0, red-black tree) is rejected");
            let c = r.unwrap();
            {
                let g = c.minialloc.read().unwrap();
                // C02/C04: the caches are exactly what the image encodes
                let fat = aacc::fat(dacc::allocator(macc::directory(&g)));
                assert!(fat.len() == 5 && fat[0] == EOC && fat[1] == FATSECT && fat[2] == EOC && fat[3] == EOC && fat[4] == 0, "C04/C02: FAT cache differs from the image (last sector's cell links to sector 0)");
                let mf = macc::minifat(&g);
                assert!(mf.len() == 3 && mf[0] == 1 && mf[1] == EOC && mf[2] == EOC, "C04/C02: MiniFAT cache differs from the image");
                let ents = dacc::dir_entries(macc::directory(&g));
                assert!(ents.len() == 8, "C04: directory entries of both directory sectors");
                let mut ok = true;
                let mut i = 0;
                while i < 4 {
                    ok &= same(&ents[i], &em[i]);
                    ok &= ents[4 + i].obj_type == ObjType::Unallocated;
                    i += 1;
                }
                assert!(ok, "C04/C02/C17: directory cache differs from the entries encoded in the image");
            }
            // logical content: lookups (case-insensitive, red-black tree of another writer) and stream bytes
            {
                let mut g = c.minialloc.write().unwrap();
                assert!(g.stream_id_for_name_chain(&["S"]) == Some(1) && g.stream_id_for_name_chain(&["o"]) == Some(2)
                    && g.stream_id_for_name_chain(&["D"]) == Some(3) && g.stream_id_for_name_chain(&["x"]) == None,
                    "C04/C09: lookups in a sibling tree written by another implementation");
                let mut buf = [0u8; 100];
                let r = sacc::read_data(&mut g, 1, 0, &mut buf);
                assert!(r.is_ok() && r.unwrap() == 100, "C04: reading a stream failed");
                let q = any_usize_below(100);
                assert!(buf[q] == before[soff(3) + q], "C04: stream bytes differ from the content encoded in the file");
            }
            kani::cover!(true, "end");
            std::mem::forget(c);
        }
    };
}
open_valid!(open_valid_permissive, false);
open_valid!(open_valid_strict, true);

// C11: whatever the first-MiniFAT-sector header field says, if permissive open
// accepts the file then writing a small stream afterwards does not panic.
#[kani::proof]
#[kani::stub(std::fmt::format, stub_format)]
#[kani::stub(std::io::copy, stub_io_copy)]
#[kani::stub(crate::internal::path::cfb_uppercase_char, super::uptable::table_upper)]
#[kani::unwind(140)]
fn open_bogus_minifat_then_write() {
    let fm: u32 = kani::any();
    let mut img = open_image(0, fm);
    let file = PtrFile::over(&mut img.data, SEC * 6);
    let r = CompoundFile::open_internal(file, Validation::Permissive, 1024);
    if let Ok(c) = r {
        let mut g = c.minialloc.write().unwrap();
        let w: [u8; 10] = kani::any();
        let _ = sacc::write_data(&mut g, 1, 0, &w); // may fail, must not panic or hang
        kani::cover!(true, "open accepted the file");
        drop(g);
        std::mem::forget(c);
    }
    kani::cover!(fm == 2, "the valid value");
}

use std::io::{self, Read, Seek, SeekFrom, Write};
const HSMALL: usize = 16;

/// A file whose logical length exceeds what the scenario may touch: the first
/// `N` bytes and `T` bytes from byte offset `tail_off` are backed by arrays on
/// the harness's stack; any access to the hole between or behind them is a
/// harness error (the scenario has no business there).
pub struct HoleFile<const N: usize, const T: usize> {
    pub p: *mut [u8; N],
    pub t: *mut [u8; T],
    pub tail_off: usize,
    pub len: usize,
    pub pos: usize,
}

impl<const N: usize, const T: usize> HoleFile<N, T> {
    pub fn over(head: &mut [u8; N], tail: &mut [u8; T], tail_off: usize, len: usize) -> Self {
        HoleFile { p: head as *mut [u8; N], t: tail as *mut [u8; T], tail_off, len, pos: 0 }
    }
    pub fn head(&self) -> &[u8; N] { unsafe { &*self.p } }
    pub fn tail(&self) -> &[u8; T] { unsafe { &*self.t } }
}

impl<const N: usize, const T: usize> Read for HoleFile<N, T> {
    fn read(&mut self, buf: &mut [u8]) -> io::Result<usize> {
        let avail = if self.pos < self.len { self.len - self.pos } else { 0 };
        let n = if buf.len() < avail { buf.len() } else { avail };
        if n > 0 {
            let pos = self.pos;
            if pos + n <= N {
                let d = unsafe { &*self.p };
                if n <= HSMALL {
                    let mut i = 0;
                    while i < n && i < HSMALL { buf[i] = d[pos + i]; i += 1; }
                } else {
                    buf[..n].copy_from_slice(&d[pos..pos + n]);
                }
            } else if pos >= self.tail_off && pos + n <= self.tail_off + T {
                let d = unsafe { &*self.t };
                let q = pos - self.tail_off;
                if n <= HSMALL {
                    let mut i = 0;
                    while i < n && i < HSMALL { buf[i] = d[q + i]; i += 1; }
                } else {
                    buf[..n].copy_from_slice(&d[q..q + n]);
                }
            } else {
                assert!(false, "harness: read from the hole of a HoleFile");
            }
            self.pos += n;
        }
        Ok(n)
    }
}

impl<const N: usize, const T: usize> Write for HoleFile<N, T> {
    fn write(&mut self, buf: &[u8]) -> io::Result<usize> {
        let n = buf.len();
        if n > 0 {
            let pos = self.pos;
            if pos + n <= N {
                let d = unsafe { &mut *self.p };
                if n <= HSMALL {
                    let mut i = 0;
                    while i < n && i < HSMALL { d[pos + i] = buf[i]; i += 1; }
                } else {
                    d[pos..pos + n].copy_from_slice(buf);
                }
            } else if pos >= self.tail_off && pos + n <= self.tail_off + T {
                let d = unsafe { &mut *self.t };
                let q = pos - self.tail_off;
                if n <= HSMALL {
                    let mut i = 0;
                    while i < n && i < HSMALL { d[q + i] = buf[i]; i += 1; }
                } else {
                    d[q..q + n].copy_from_slice(buf);
                }
            } else {
                assert!(false, "harness: write into the hole of a HoleFile");
            }
            self.pos += n;
            if self.pos > self.len { self.len = self.pos; }
        }
        Ok(n)
    }
    fn flush(&mut self) -> io::Result<()> { Ok(()) }
}

impl<const N: usize, const T: usize> Seek for HoleFile<N, T> {
    fn seek(&mut self, pos: SeekFrom) -> io::Result<u64> {
        let new = match pos {
            SeekFrom::Start(n) => n as usize,
            SeekFrom::End(d) => {
                let t = self.len as i64 + d;
                kani::assume(t >= 0);
                t as usize
            }
            SeekFrom::Current(d) => {
                let t = self.pos as i64 + d;
                kani::assume(t >= 0);
                t as usize
            }
        };
        self.pos = new;
        Ok(new as u64)
    }
}

// C11 (and the allocator's representation invariant behind it): a file with
// MORE sectors than its FAT sectors cover (here 131 sectors, one FAT sector =
// 128 entries) is accepted by open.  The cached FAT must then not be longer
// than what the FAT sectors can record - otherwise the uncovered sectors go on
// the free list and the first allocation that picks one indexes the DIFAT out
// of bounds in set_fat - and allocating afterwards must work: reuse of a free
// sector below the coverage, or (no free sector) growth by a new FAT sector
// that simply overwrites the unowned trailing sectors.
pub const NT: usize = SEC * 6;
pub const TAIL_SECTOR: usize = 126; // tail array = sectors 126..=131
type HO = HoleFile<NO, NT>;

macro_rules! open_uncovered {
    ($name:ident, $full:expr) => {
        #[kani::proof]
        #[kani::stub(std::fmt::format, stub_format)]
        #[kani::stub(std::io::copy, stub_io_copy)]
        #[kani::stub(crate::internal::path::cfb_uppercase_char, super::uptable::table_upper)]
        #[kani::unwind(140)]
        fn $name() {
            let mut img = open_image(192, 2);
            if $full {
                // no free sector below the coverage: cells 5..127 are one-sector chains
                let mut i = 5;
                while i < 128 { put32(&mut img.data, soff(1) + 4 * i, EOC); i += 1; }
            }
            let mut tail: [u8; NT] = kani::any();
            let file: HO = HoleFile::over(&mut img.data, &mut tail, SEC * (1 + TAIL_SECTOR), SEC * (1 + 131));
            let r = CompoundFile::open_internal(file, Validation::Permissive, 1024);
            if let Ok(c) = r {
                let mut g = c.minialloc.write().unwrap();
                {
                    let a = dacc::allocator(macc::directory(&g));
                    assert!(aacc::fat(a).len() <= 128 * aacc::difat(a).len(),
                        "C11/C02: after open the cached FAT is longer than what the file's FAT sectors can record");
                    let fr = aacc::free_sectors(a);
                    let mut ok = true;
                    let mut i = 0;
                    while i < fr.len() { ok &= (fr[i] as usize) < 128 * aacc::difat(a).len(); i += 1; }
                    assert!(ok, "C11: a sector without a FAT entry in the file is on the free list");
                }
                let r = aacc::allocate_sector(dacc::allocator_mut(macc::directory_mut(&mut g)), crate::internal::SectorInit::Zero);
                match r {
                    Ok(id) => {
                        let a = dacc::allocator(macc::directory(&g));
                        assert!((id as usize) < aacc::fat(a).len() && aacc::fat(a)[id as usize] == EOC, "C03: allocated sector's FAT cell");
                        if $full {
                            assert!(id == 129 && aacc::difat(a).len() == 2 && aacc::difat(a)[1] == 128, "C03/C15: growth past the FAT's coverage adds FAT sector 128 and hands out sector 129");
                            let f = a.inner();
                            assert!(get32(&f.head()[..], 44) == 2 && get32(&f.head()[..], 80) == 128, "C02: header FAT count / DIFAT entry written through");
                            assert!(get32(&f.tail()[..], SEC * (128 - TAIL_SECTOR)) == FATSECT && get32(&f.tail()[..], SEC * (128 - TAIL_SECTOR) + 4) == EOC, "C02: cells of the new FAT sector written through");
                        } else {
                            assert!((id as usize) < 128, "C11: allocation handed out a sector the FAT cannot record");
                        }
                        kani::cover!(true, "allocated");
                    }
                    Err(e) => { std::mem::forget(e); assert!(false, "C11/C01: allocation failed on an accepted file"); }
                }
                drop(g);
                std::mem::forget(c);
            } else {
                // rejecting the file would be a legitimate answer for C11
                std::mem::forget(r);
            }
            kani::cover!(true, "end");
        }
    };
}
open_uncovered!(open_uncovered_reuse, false);
open_uncovered!(open_uncovered_grow, true);
