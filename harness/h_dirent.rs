// Directory entry codec (direntry.rs) against an independent encoder/decoder
// written from MS-CFB 2.6.  Serves C17 (metadata round trip), C16 (strict vs
// permissive), C05 (no panic on arbitrary bytes), C03/C02 (byte layout),
// C09 (31-unit names), C04.
use super::env::*;
use super::util::*;
use crate::internal::timestamp::vacc as tacc;
use crate::internal::{Color, DirEntry, ObjType, Timestamp, Validation, Version};
use std::io::ErrorKind;
use uuid::Uuid;

pub type F128 = ArrFile<128>;

/// Harness-side record of a directory entry (the abstract content).
#[derive(Clone, Copy)]
pub struct EM {
    pub name: [u8; 32], // ASCII units
    pub nlen: usize,
    pub ty: u8,
    pub color: u8,
    pub left: u32,
    pub right: u32,
    pub child: u32,
    pub d1: u32,
    pub d2: u16,
    pub d3: u16,
    pub d4: [u8; 8],
    pub state: u32,
    pub ct: u64,
    pub mt: u64,
    pub start: u32,
    pub len: u64,
}

pub fn em_blank() -> EM {
    EM { name: [0; 32], nlen: 0, ty: 0, color: 0, left: NOSTREAM, right: NOSTREAM, child: NOSTREAM,
         d1: 0, d2: 0, d3: 0, d4: [0; 8], state: 0, ct: 0, mt: 0, start: 0, len: 0 }
}

/// Independent encoder (MS-CFB 2.6.1 layout).
pub fn enc(e: &EM) -> [u8; 128] {
    let mut b = [0u8; 128];
    let mut i = 0;
    while i < e.nlen {
        b[2 * i] = e.name[i];
        i += 1;
    }
    let nl: u16 = if e.ty == 0 { 0 } else { ((e.nlen + 1) * 2) as u16 };
    put16(&mut b, 64, nl);
    b[66] = e.ty;
    b[67] = e.color;
    put32(&mut b, 68, e.left);
    put32(&mut b, 72, e.right);
    put32(&mut b, 76, e.child);
    put32(&mut b, 80, e.d1);
    put16(&mut b, 84, e.d2);
    put16(&mut b, 86, e.d3);
    b[88..96].copy_from_slice(&e.d4);
    put32(&mut b, 96, e.state);
    put64(&mut b, 100, e.ct);
    put64(&mut b, 108, e.mt);
    put32(&mut b, 116, e.start);
    put64(&mut b, 120, e.len);
    b
}

pub fn ty_of(t: u8) -> ObjType {
    match t {
        1 => ObjType::Storage,
        2 => ObjType::Stream,
        5 => ObjType::Root,
        _ => ObjType::Unallocated,
    }
}
pub fn ty_byte(t: ObjType) -> u8 {
    match t {
        ObjType::Unallocated => 0,
        ObjType::Storage => 1,
        ObjType::Stream => 2,
        ObjType::Root => 5,
    }
}

/// Library-side entry built from the record.
pub fn to_dirent(e: &EM) -> DirEntry {
    let name = String::from(unsafe { std::str::from_utf8_unchecked(&e.name[..e.nlen]) });
    DirEntry {
        name,
        obj_type: ty_of(e.ty),
        color: if e.color == 0 { Color::Red } else { Color::Black },
        left_sibling: e.left,
        right_sibling: e.right,
        child: e.child,
        clsid: Uuid::from_fields(e.d1, e.d2, e.d3, &e.d4),
        state_bits: e.state,
        creation_time: tacc::mk(e.ct),
        modified_time: tacc::mk(e.mt),
        start_sector: e.start,
        stream_len: e.len,
    }
}

pub fn same(d: &DirEntry, e: &EM) -> bool {
    let (d1, d2, d3, d4) = d.clsid.as_fields();
    let nm = d.name.as_bytes();
    if nm.len() != e.nlen {
        return false;
    }
    let mut i = 0;
    while i < e.nlen {
        if nm[i] != e.name[i] {
            return false;
        }
        i += 1;
    }
    ty_byte(d.obj_type) == e.ty
        && (if d.color == Color::Red { 0 } else { 1 }) == e.color
        && d.left_sibling == e.left
        && d.right_sibling == e.right
        && d.child == e.child
        && d1 == e.d1 && d2 == e.d2 && d3 == e.d3
        && d4[0] == e.d4[0] && d4[1] == e.d4[1] && d4[2] == e.d4[2] && d4[3] == e.d4[3]
        && d4[4] == e.d4[4] && d4[5] == e.d4[5] && d4[6] == e.d4[6] && d4[7] == e.d4[7]
        && d.state_bits == e.state
        && d.creation_time == tacc::mk(e.ct)
        && d.modified_time == tacc::mk(e.mt)
        && d.start_sector == e.start
        && d.stream_len == e.len
}

fn any_link() -> u32 {
    let v: u32 = kani::any();
    kani::assume(v == NOSTREAM || v <= 0xffff_fffa);
    v
}

pub fn any_name_char() -> u8 {
    let c: u8 = kani::any();
    kani::assume(c >= 0x20 && c < 0x7f && c != b'/' && c != b'\\' && c != b':' && c != b'!');
    c
}

/// Arbitrary valid entry of kind `ty` with an ASCII name of `nlen` units.
pub fn any_em(ty: u8, nlen: usize, v4: bool) -> EM {
    let mut e = em_blank();
    e.ty = ty;
    e.nlen = nlen;
    let mut i = 0;
    while i < nlen {
        // concrete name: name handling is the subject of other harnesses
        e.name[i] = b'a' + (i % 26) as u8;
        i += 1;
    }
    if ty == 5 {
        let rn = b"Root Entry";
        e.nlen = 10;
        let mut k = 0;
        while k < 10 { e.name[k] = rn[k]; k += 1; }
    }
    let c: bool = kani::any();
    e.color = if c { 1 } else { 0 };
    e.left = any_link();
    e.right = any_link();
    e.state = kani::any();
    if ty == 2 {
        e.child = NOSTREAM;
        e.start = kani::any();
        e.len = kani::any();
        if !v4 {
            kani::assume(e.len <= 0xffff_ffff);
        }
    } else {
        e.child = any_link();
        e.d1 = kani::any();
        e.d2 = kani::any();
        e.d3 = kani::any();
        e.d4 = kani::any();
        e.ct = kani::any();
        e.mt = kani::any();
        if ty == 5 {
            e.start = kani::any();
            e.len = kani::any();
            if !v4 {
                kani::assume(e.len <= 0xffff_ffff);
            }
        }
    }
    e
}

macro_rules! dirent_roundtrip {
    ($name:ident, $ty:expr, $nlen:expr, $v4:expr) => {
        #[kani::proof]
        #[kani::stub(std::fmt::format, stub_format)]
        #[kani::unwind(36)]
        fn $name() {
            let e = any_em($ty, $nlen, $v4);
            let d = to_dirent(&e);
            let mut f = F128::new([0xEEu8; 128], 0);
            let r = d.write_to(&mut f);
            assert!(r.is_ok(), "C17: write_to failed");
            assert!(f.len == 128, "C03: directory entry is not 128 bytes");
            let want = enc(&e);
            let k = any_usize_below(128);
            assert!(f.data[k] == want[k], "C02/C03/C17: directory entry bytes differ from the MS-CFB layout");
            f.pos = 0;
            let version = if $v4 { Version::V4 } else { Version::V3 };
            let back = DirEntry::read_from(&mut f, version, Validation::Strict);
            assert!(back.is_ok(), "C17/C16/C09: strict reader rejects an entry the writer produced");
            let back = back.unwrap();
            assert!(same(&back, &e), "C17: metadata changed across write_to/read_from");
            f.pos = 0;
            let perm = DirEntry::read_from(&mut f, version, Validation::Permissive);
            assert!(perm.is_ok() && same(&perm.unwrap(), &e), "C16: permissive reading differs from strict reading");
            kani::cover!($ty == 2 || (e.ct != 0 && e.mt != e.ct), "non-trivial times (storages/root)");
            kani::cover!(true, "end");
        }
    };
}
dirent_roundtrip!(dirent_rt_storage_2, 1, 2, false);
dirent_roundtrip!(dirent_rt_root, 5, 10, false);
dirent_roundtrip!(dirent_rt_stream_1, 2, 1, true);

// Longest legal name (31 UTF-16 units): concrete entry, written and read back
// in both modes and both versions (C09: every valid name is accepted and
// stored verbatim).
#[kani::proof]
#[kani::stub(std::fmt::format, stub_format)]
#[kani::unwind(36)]
fn dirent_maxname_concrete() {
    let mut e = em_blank();
    e.ty = 1;
    e.nlen = 31;
    let mut i = 0;
    while i < 31 { e.name[i] = b'A' + (i % 26) as u8; i += 1; }
    e.color = 1;
    e.state = 7;
    e.ct = 5;
    e.mt = 6;
    let d = to_dirent(&e);
    let mut f = F128::new([0xEEu8; 128], 0);
    assert!(d.write_to(&mut f).is_ok());
    let want = enc(&e);
    let k = any_usize_below(128);
    assert!(f.data[k] == want[k], "C09/C03: 31-unit name not stored verbatim with length field 64");
    f.pos = 0;
    let r = DirEntry::read_from(&mut f, Version::V4, Validation::Strict);
    assert!(r.is_ok(), "C09: a 31-unit name written by the library is rejected by the strict reader");
    assert!(same(&r.unwrap(), &e), "C09: 31-unit name not read back verbatim");
    f.pos = 0;
    let r = DirEntry::read_from(&mut f, Version::V3, Validation::Permissive);
    assert!(r.is_ok() && same(&r.unwrap(), &e), "C09: a 31-unit name is rejected or altered by the permissive reader");
    kani::cover!(true, "end");
}

// Unallocated entries are blank (C03) and read back as unallocated.
#[kani::proof]
#[kani::stub(std::fmt::format, stub_format)]
#[kani::unwind(36)]
fn dirent_unallocated_blank() {
    let d = DirEntry::unallocated();
    let mut f = F128::new([0xEEu8; 128], 0);
    assert!(d.write_to(&mut f).is_ok());
    let k = any_usize_below(128);
    let want = enc(&em_blank());
    assert!(f.data[k] == want[k], "C03: unallocated entry is not blank (all zeros except the three NOSTREAM links)");
    kani::cover!(true, "end");
}

// ------------------------------------------------------------------ parsing
/// Independent decoding + validation of the 62 non-name bytes, for an entry
/// whose name field holds the valid 2-unit name "ab".
/// Returns (strict_ok, permissive_ok, normalised record as permissive must see it).
fn spec_decode(b: &[u8; 128], v4: bool) -> (bool, bool, EM) {
    let mut e = em_blank();
    e.nlen = 2;
    e.name[0] = b[0];
    e.name[1] = b[2];
    e.ty = b[66];
    e.color = b[67];
    e.left = get32(b, 68);
    e.right = get32(b, 72);
    e.child = get32(b, 76);
    e.d1 = get32(b, 80);
    e.d2 = get16(b, 84);
    e.d3 = get16(b, 86);
    e.d4.copy_from_slice(&b[88..96]);
    e.state = get32(b, 96);
    e.ct = get64(b, 100);
    e.mt = get64(b, 108);
    e.start = get32(b, 116);
    e.len = get64(b, 120);
    if !v4 {
        e.len &= 0xffff_ffff;
    }
    let mut ok = true; // acceptable in permissive mode
    let mut strict = true;
    if !(e.ty == 0 || e.ty == 1 || e.ty == 2 || e.ty == 5) {
        ok = false;
    }
    if e.color > 1 {
        ok = false;
    }
    if e.left != NOSTREAM && e.left > 0xffff_fffa { ok = false; }
    if e.right != NOSTREAM && e.right > 0xffff_fffa { ok = false; }
    if e.child != NOSTREAM {
        if e.ty == 2 || e.child > 0xffff_fffa { ok = false; }
    }
    if e.ty == 5 {
        // wrong root name: tolerated in permissive mode, name reads as "Root Entry"
        strict = false;
        let rn = b"Root Entry";
        e.nlen = 10;
        let mut k = 0;
        while k < 10 { e.name[k] = rn[k]; k += 1; }
    }
    if e.ty == 2 {
        let nil = e.d1 == 0 && e.d2 == 0 && e.d3 == 0 && e.d4 == [0u8; 8];
        if !nil { strict = false; e.d1 = 0; e.d2 = 0; e.d3 = 0; e.d4 = [0; 8]; }
        if e.ct != 0 { strict = false; e.ct = 0; }
        if e.mt != 0 { strict = false; e.mt = 0; }
    }
    if e.ty == 1 {
        if e.start != 0 { strict = false; e.start = 0; }
        if e.len != 0 { strict = false; e.len = 0; }
    }
    (ok && strict, ok, e)
}

macro_rules! dirent_parse_fields {
    ($name:ident, $v4:expr, $ty:expr) => {
        #[kani::proof]
        #[kani::stub(std::fmt::format, stub_format)]
        #[kani::unwind(36)]
        fn $name() {
            let mut b = [0u8; 128];
            b[0] = b'a';
            b[2] = b'b';
            put16(&mut b, 64, 6);
            let tail: [u8; 62] = kani::any();
            b[66..128].copy_from_slice(&tail);
            // object type byte: concrete per instance (0xff = any invalid value)
            if $ty == 0xff {
                kani::assume(!(b[66] == 0 || b[66] == 1 || b[66] == 2 || b[66] == 5));
            } else {
                b[66] = $ty;
            }
            let strict: bool = $v4; // one mode per instance pair keeps the query small
            let version = if $v4 { Version::V4 } else { Version::V3 };
            let (s_ok, p_ok, want) = spec_decode(&b, $v4);
            let mut f = F128::new(b, 128);
            let _ = strict;
            let rs = DirEntry::read_from(&mut f, version, Validation::Strict);
            f.pos = 0;
            let rp = DirEntry::read_from(&mut f, version, Validation::Permissive);
            assert!(!rs.is_ok() || rp.is_ok(), "C16: strict accepts an entry that permissive rejects");
            assert!(rp.is_ok() == p_ok, "C16/C04/C05: permissive acceptance differs from the specification (tolerated deviations must be accepted, everything else rejected)");
            assert!(rs.is_ok() == s_ok, "C16/C04: strict acceptance differs from the specification");
            if let Ok(d) = &rp {
                assert!(same(d, &want), "C16/C04: permissive view differs from the logical content");
            }
            if let Ok(d) = &rs {
                assert!(same(d, &want), "C16/C04: strict view differs from the logical content");
            }
            if let Err(e) = &rp {
                assert!(e.kind() == ErrorKind::InvalidData, "C05: wrong error kind");
            }
            kani::cover!(rp.is_ok() || !p_ok, "end");
        }
    };
}
dirent_parse_fields!(dirent_parse_storage_v3, false, 1);
dirent_parse_fields!(dirent_parse_stream_v3, false, 2);
dirent_parse_fields!(dirent_parse_stream_v4, true, 2);
dirent_parse_fields!(dirent_parse_root_v3, false, 5);
dirent_parse_fields!(dirent_parse_unalloc_v3, false, 0);
dirent_parse_fields!(dirent_parse_badtype_v3, false, 0xff);

// Root entry name: strict requires exactly "Root Entry"; permissive reads it as "Root Entry".
#[kani::proof]
#[kani::stub(std::fmt::format, stub_format)]
#[kani::unwind(36)]
fn dirent_root_name() {
    let mut e = any_em(5, 10, false);
    let mut diff = false;
    let rn = b"Root Entry";
    let mut i = 0;
    while i < 10 {
        let c: u8 = any_name_char();
        e.name[i] = c;
        if c != rn[i] { diff = true; }
        i += 1;
    }
    let b = enc(&e);
    let mut f = F128::new(b, 128);
    let rs = DirEntry::read_from(&mut f, Version::V3, Validation::Strict);
    f.pos = 0;
    let rp = DirEntry::read_from(&mut f, Version::V3, Validation::Permissive);
    assert!(rs.is_ok() == !diff, "C16: strict must accept the root entry iff its name is exactly \"Root Entry\"");
    assert!(rp.is_ok(), "C16: permissive must tolerate a wrong root name");
    assert!(rp.unwrap().name == "Root Entry", "C16: permissive must expose the root name as \"Root Entry\"");
    kani::cover!(diff, "wrong root name");
    kani::cover!(!diff, "right root name");
}
