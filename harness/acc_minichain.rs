#![allow(dead_code)]
use super::*;
pub(crate) fn sector_ids<'b, 'a, F>(c: &'b MiniChain<'a, F>) -> &'b Vec<u32> { &c.sector_ids }
