// C06 / C10: Stream::seek arithmetic for all u64 lengths/positions and all
// i64 offsets, from an arbitrary cache state.
use super::env::*;
use crate::internal::stream::vacc as sacc;
use crate::internal::stream_buffer::vacc as bacc;
use std::io::{ErrorKind, Seek, SeekFrom};
use std::sync::Weak;

type F = ArrFile<8>;

fn any_seek() -> SeekFrom {
    let k: u8 = kani::any();
    match k % 3 {
        0 => SeekFrom::Start(kani::any()),
        1 => SeekFrom::End(kani::any()),
        _ => SeekFrom::Current(kani::any()),
    }
}

fn model(pos: SeekFrom, cur: u64, len: u64) -> Option<u64> {
    let t: i128 = match pos {
        SeekFrom::Start(n) => n as i128,
        SeekFrom::End(d) => len as i128 + d as i128,
        SeekFrom::Current(d) => cur as i128 + d as i128,
    };
    if t < 0 || t > len as i128 {
        None
    } else {
        Some(t as u64)
    }
}

#[kani::proof]
#[kani::stub(std::fmt::format, stub_format)]
#[kani::unwind(2)]
fn c06_seek_total() {
    let total_len: u64 = kani::any();
    let off: u64 = kani::any();
    let pos: usize = kani::any();
    let cap: usize = kani::any();
    let dlen = bacc::MIN;
    // representation invariant of the cache
    kani::assume(pos <= cap && cap <= dlen);
    kani::assume(off <= total_len && (cap as u64) <= total_len - off);
    let buffer = bacc::mk(vec![0u8; dlen], pos, cap, dlen);
    let mut s = sacc::mk_ro::<F>(Weak::new(), 1, total_len, buffer, off);
    let cur = off + pos as u64;
    let arg = any_seek();
    let want = model(arg, cur, total_len);
    let got = s.seek(arg);
    match (want, got) {
        (Some(w), Ok(g)) => {
            assert!(g == w, "C06: seek returned another position than the byte-vector model");
            assert!(sacc::position(&s) == w, "C06: position after an accepted seek");
            assert!(sacc::total_len(&s) == total_len, "C06/C10: a seek changed the stream's length");
        }
        (None, Err(e)) => {
            assert!(e.kind() == ErrorKind::InvalidInput, "C06/C10: a seek outside [0, len] must fail with InvalidInput");
            // C10: refused seek changes nothing
            assert!(sacc::position(&s) == cur, "C06/C10: a refused seek moved the position");
            assert!(sacc::buf_offset(&s) == off, "C10: a refused seek moved the buffer window");
            assert!(bacc::pos(sacc::buffer(&s)) == pos, "C10: a refused seek moved the cursor");
            assert!(bacc::cap(sacc::buffer(&s)) == cap, "C10: a refused seek changed the filled length");
            assert!(sacc::total_len(&s) == total_len, "C06/C10: a refused seek changed the stream's length");
        }
        _ => panic!("C06/C10: seek Ok/Err disagrees with the byte-vector model"),
    }
    kani::cover!(want.is_none(), "refused seek reachable");
    kani::cover!(want.is_some(), "accepted seek reachable");
    std::mem::forget(s);
}
