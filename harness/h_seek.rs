// C06 / C10: Stream::seek arithmetic for all u64 lengths/positions and all
// i64 offsets, from an arbitrary cache state.
use super::env::*;
use crate::internal::stream::vacc as sacc;
use crate::internal::stream_buffer::vacc as bacc;
use std::io::{ErrorKind, Seek, SeekFrom};
use std::sync::Weak;

type F = ArrFile<8>;

fn any_seek() -> SeekFrom {
    let k: u8 = kani::any();
    match k % 3 {
        0 => SeekFrom::Start(kani::any()),
        1 => SeekFrom::End(kani::any()),
        _ => SeekFrom::Current(kani::any()),
    }
}

fn model(pos: SeekFrom, cur: u64, len: u64) -> Option<u64> {
    let t: i128 = match pos {
        SeekFrom::Start(n) => n as i128,
        SeekFrom::End(d) => len as i128 + d as i128,
        SeekFrom::Current(d) => cur as i128 + d as i128,
    };
    if t < 0 || t > len as i128 {
        None
    } else {
        Some(t as u64)
    }
}

#[kani::proof]
#[kani::stub(std::fmt::format, stub_format)]
#[kani::unwind(2)]
fn c06_seek_total() {
    let total_len: u64 = kani::any();
    let off: u64 = kani::any();
    let pos: usize = kani::any();
    let cap: usize = kani::any();
    let dlen = bacc::MIN;
    // representation invariant of the cache
    kani::assume(pos <= cap && cap <= dlen);
    kani::assume(off <= total_len && (cap as u64) <= total_len - off);
    let buffer = bacc::mk(vec![0u8; dlen], pos, cap, dlen);
    let mut s = sacc::mk_ro::<F>(Weak::new(), 1, total_len, buffer, off);
    let cur = off + pos as u64;
    let arg = any_seek();
    let want = model(arg, cur, total_len);
    let got = s.seek(arg);
    match (want, got) {
        (Some(w), Ok(g)) => {
            assert!(g == w);
            assert!(sacc::position(&s) == w);
            assert!(sacc::total_len(&s) == total_len);
        }
        (None, Err(e)) => {
            assert!(e.kind() == ErrorKind::InvalidInput);
            // C10: refused seek changes nothing
            assert!(sacc::position(&s) == cur);
            assert!(sacc::buf_offset(&s) == off);
            assert!(bacc::pos(sacc::buffer(&s)) == pos);
            assert!(bacc::cap(sacc::buffer(&s)) == cap);
            assert!(sacc::total_len(&s) == total_len);
        }
        _ => panic!("seek Ok/Err disagrees with the byte-vector model"),
    }
    kani::cover!(want.is_none(), "refused seek reachable");
    kani::cover!(want.is_some(), "accepted seek reachable");
    std::mem::forget(s);
}
