// C16: the root entry's name (split from h_dirent.rs).
use super::env::*;
use super::h_dirent::*;
use super::util::*;
use crate::internal::{DirEntry, Validation, Version};

// Root entry name: strict requires exactly "Root Entry"; permissive reads any
// root name as "Root Entry".  Names that differ only in letter case, in length
// or completely; the other fields arbitrary.
macro_rules! dirent_root_name {
    ($name:ident, $rn:expr) => {
        #[kani::proof]
        #[kani::stub(std::fmt::format, stub_format)]
        #[kani::unwind(36)]
        fn $name() {
            let mut e = any_em(5, 10, false);
            let rn: &[u8] = $rn;
            e.nlen = rn.len();
            let mut i = 0;
            while i < 31 {
                e.name[i] = if i < rn.len() { rn[i] } else { 0 };
                i += 1;
            }
            let exact = rn == b"Root Entry";
            let b = enc(&e);
            let mut f = F128::new(b, 128);
            let rs = DirEntry::read_from(&mut f, Version::V3, Validation::Strict);
            f.pos = 0;
            let rp = DirEntry::read_from(&mut f, Version::V3, Validation::Permissive);
            assert!(rs.is_ok() == exact, "C16: strict must accept the root entry iff its name is exactly \"Root Entry\"");
            assert!(rp.is_ok(), "C16: permissive must tolerate a wrong root name");
            assert!(rp.unwrap().name == "Root Entry", "C16: permissive must expose the root name as \"Root Entry\"");
            kani::cover!(true, "end");
        }
    };
}
dirent_root_name!(dirent_root_name_lower, b"root entry");
dirent_root_name!(dirent_root_name_upper, b"ROOT ENTRY");
dirent_root_name!(dirent_root_name_mixed, b"Root entry");
dirent_root_name!(dirent_root_name_other, b"R");
dirent_root_name!(dirent_root_name_exact, b"Root Entry");
