// C12 at the storage layer: read_data_from_stream over the real chain /
// sector layers with the k-th underlying read or seek call failing: the
// result is Err or exactly the stream's bytes, and nothing (image, caches,
// file length) is modified.
use super::env::*;
use super::h_fault::{FaultAt, NFI};
use super::h_stor::*;
use super::util::*;
use crate::internal::directory::vacc as dacc;
use crate::internal::minialloc::vacc as macc;
use crate::internal::stream::vacc as sacc;
use crate::internal::MiniAllocator;

type FSF = FaultAt<ArrFile<NFI>>;

macro_rules! stor_read_fault {
    ($name:ident, $at:expr, $seeks:expr, $reads:expr) => {
        #[kani::proof]
        #[kani::stub(std::fmt::format, stub_format)]
        #[kani::unwind(110)]
        fn $name() {
            let p = small_parts(&[2, EOC, EOC], 0, 100, 1, 64); // fragmented: s = 0->2
            let mut img = [0u8; NFI];
            img[..SEC * (1 + NSA)].copy_from_slice(&p.data[..SEC * (1 + NSA)]);
            let before = img;
            let file = FaultAt { f: ArrFile::new(img, p.len), armed: true, at: $at, calls: 0, injected: 0,
                                 fail_reads: $reads, fail_writes: false, fail_seeks: $seeks, fail_flush: false };
            let mut m: MiniAllocator<FSF> = assemble(file, p.len, p.fat, p.entries, p.mf, p.mfree);
            let mut buf = [0u8; 20];
            let r = sacc::read_data(&mut m, 1, 55, &mut buf); // crosses the mini sector boundary: two sector accesses
            let inj = m.inner().injected;
            match r {
                Ok(n) => {
                    assert!(n == 20, "C12: short result without an error");
                    let mut ok = true;
                    let mut k = 0;
                    while k < 20 {
                        let q = 55 + k;
                        let ms = if q < 64 { 0 } else { 2 };
                        ok &= buf[k] == before[soff(3) + MINI * ms + (q % 64)];
                        k += 1;
                    }
                    assert!(ok, "C12: a read that returned Ok under a read/seek fault returned bytes that are not the stream's content");
                }
                Err(e) => {
                    assert!(inj == 1, "C12: read failed although no fault was injected");
                    std::mem::forget(e);
                }
            }
            let j = any_usize_below(SEC * (1 + NSA));
            assert!(m.inner().f.data[j] == before[j] && m.inner().f.len == p.len, "C12: a (failed) read modified the file");
            let e1 = &dacc::dir_entries(macc::directory(&m))[1];
            assert!(e1.stream_len == 100 && e1.start_sector == 0, "C12: a (failed) read modified the caches");
            kani::cover!(inj == 1 || $at >= 4, "a fault was injected");
            std::mem::forget(m);
        }
    };
}
stor_read_fault!(stor_read_fault_seek0, 0, true, false);
stor_read_fault!(stor_read_fault_seek1, 1, true, false);
stor_read_fault!(stor_read_fault_seek2, 2, true, false);
stor_read_fault!(stor_read_fault_read0, 0, false, true);
stor_read_fault!(stor_read_fault_read1, 1, false, true);
