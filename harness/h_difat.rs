// Allocator::append_fat_sector beyond the 109 DIFAT entries of the header
// (files with more than 109 FAT sectors, > 6.8 MB in v3): the DIFAT index
// arithmetic, the first DIFAT sector, a full DIFAT sector (127 entries + chain
// pointer) and the link to a second one.  The 15 MB image is a sparse file of
// a few pages; table sizes are concrete per instance.  C02 / C03.
use super::env::*;
use super::util::*;
use crate::internal::alloc::vacc as aacc;
use crate::internal::{Allocator, Sectors, Version};
use std::io::{self, Read, Seek, SeekFrom, Write};

pub const NP: usize = 5;

/// Sparse file: header page + a few sector pages, everything else must not be touched.
pub struct SparseFile {
    pub key: [u64; NP], // page index = byte offset / 512
    pub page: [[u8; SEC]; NP],
    pub len: u64,
    pub pos: u64,
}

impl SparseFile {
    fn slot(&self, pg: u64) -> usize {
        let mut i = 0;
        while i < NP {
            if self.key[i] == pg {
                return i;
            }
            i += 1;
        }
        // an access outside the pages the scenario can legitimately touch
        assert!(false, "C03: append_fat_sector touched a sector it has no business with");
        0
    }
    pub fn u32_at(&self, pg: u64, off: usize) -> u32 {
        let s = self.slot(pg);
        get32(&self.page[s], off)
    }
}
impl Read for SparseFile {
    fn read(&mut self, _buf: &mut [u8]) -> io::Result<usize> {
        kani::assume(false);
        Ok(0)
    }
}
impl Write for SparseFile {
    fn write(&mut self, buf: &[u8]) -> io::Result<usize> {
        let pg = self.pos / SEC as u64;
        let off = (self.pos % SEC as u64) as usize;
        kani::assume(off + buf.len() <= SEC);
        let s = self.slot(pg);
        if buf.len() <= 16 {
            let mut i = 0;
            while i < buf.len() {
                self.page[s][off + i] = buf[i];
                i += 1;
            }
        } else {
            self.page[s][off..off + buf.len()].copy_from_slice(buf);
        }
        self.pos += buf.len() as u64;
        if self.pos > self.len {
            self.len = self.pos;
        }
        Ok(buf.len())
    }
    fn flush(&mut self) -> io::Result<()> {
        Ok(())
    }
}
impl Seek for SparseFile {
    fn seek(&mut self, pos: SeekFrom) -> io::Result<u64> {
        match pos {
            SeekFrom::Start(n) => self.pos = n,
            _ => kani::assume(false),
        }
        Ok(self.pos)
    }
}

/// nfat FAT sectors exist (all full), the DIFAT sectors listed in `dsecs` exist.
/// Returns the allocator; FAT sector i is sector 200+i for i < 109 (irrelevant),
/// and the DIFAT sectors are where `dsecs` says.
fn mk(nfat: usize, dsecs: &[u32], pages: [u64; NP]) -> Allocator<SparseFile> {
    let nsec = nfat * 128;
    let mut difat: Vec<u32> = Vec::with_capacity(nfat + 2);
    let mut i = 0;
    while i < nfat {
        difat.push(77); // FAT sector ids of the existing FAT sectors are never dereferenced here
        i += 1;
    }
    // contents of the existing FAT cells are irrelevant for append_fat_sector (only the
    // length is used): left uninitialised (= arbitrary), with room for the two pushes
    let mut fat: Vec<u32> = Vec::with_capacity(nsec + 4);
    unsafe { fat.set_len(nsec); }
    let mut ds: Vec<u32> = Vec::with_capacity(dsecs.len() + 2);
    i = 0;
    while i < dsecs.len() {
        ds.push(dsecs[i]);
        i += 1;
    }
    let stale: [u8; SEC] = kani::any();
    let mut page = [[0u8; SEC]; NP];
    i = 0;
    while i < NP {
        page[i] = stale; // whatever was there before
        i += 1;
    }
    let file = SparseFile { key: pages, page, len: ((nsec + 1) * SEC) as u64, pos: 0 };
    let sectors = Sectors::new(Version::V3, ((nsec + 1) * SEC) as u64, file);
    aacc::mk(sectors, ds, difat, fat, Vec::new())
}

// 110th FAT sector: the first DIFAT sector is created
#[kani::proof]
#[kani::stub(std::fmt::format, stub_format)]
#[kani::unwind(260)]
fn difat_first_sector() {
    let nfat = 109;
    let nf = (nfat * 128) as u32; // id of the new FAT sector
    let nd = nf + 1; // id of the new DIFAT sector
    let mut a = mk(nfat, &[], [0, (nf + 1) as u64, (nd + 1) as u64, 1, 2]);
    let r = aacc::append_fat_sector(&mut a);
    assert!(r.is_ok(), "C03: growing the FAT beyond the header DIFAT failed");
    assert!(aacc::difat(&a).len() == 110 && aacc::difat(&a)[109] == nf, "C03: DIFAT cache");
    let ds = aacc::difat_sector_ids(&a);
    assert!(ds.len() == 1 && ds[0] == nd, "C03: first DIFAT sector not created");
    let fat = aacc::fat(&a);
    assert!(fat.len() == (nd + 1) as usize && fat[nf as usize] == FATSECT && fat[nd as usize] == DIFSECT, "C03: new FAT / DIFAT sector not marked in the FAT");
    let f = a.inner();
    assert!(f.u32_at(0, 44) == 110, "C02/C03: header FAT sector count");
    assert!(f.u32_at(0, 68) == nd && f.u32_at(0, 72) == 1, "C02/C03: header DIFAT start / count");
    assert!(f.u32_at((nf + 1) as u64, 0) == FATSECT && f.u32_at((nf + 1) as u64, 4) == DIFSECT && f.u32_at((nf + 1) as u64, 8) == FREE, "C02: FAT cells of the new sectors not written through");
    assert!(f.u32_at((nd + 1) as u64, 0) == nf, "C02/C03: the 110th FAT sector is not entry 0 of the first DIFAT sector");
    let k = any_usize_below(126) + 1;
    assert!(f.u32_at((nd + 1) as u64, 4 * k) == FREE, "C03: unused DIFAT entries are not FREE");
    assert!(f.u32_at((nd + 1) as u64, 508) == EOC, "C03: DIFAT chain not terminated");
    assert!(f.len == ((nd as u64) + 2) * SEC as u64, "C03: file length");
    kani::cover!(true, "end");
    std::mem::forget(a);
}

// 236th FAT sector: entry 126 (the last one) of an existing DIFAT sector
#[kani::proof]
#[kani::stub(std::fmt::format, stub_format)]
#[kani::unwind(260)]
fn difat_last_slot() {
    let nfat = 235;
    let nf = (nfat * 128) as u32;
    let d0: u32 = 14000;
    let mut a = mk(nfat, &[d0], [0, (nf + 1) as u64, (d0 + 1) as u64, 1, 2]);
    let before_link = a.inner().u32_at((d0 + 1) as u64, 508);
    let r = aacc::append_fat_sector(&mut a);
    assert!(r.is_ok(), "C03: append_fat_sector failed");
    assert!(aacc::difat_sector_ids(&a).len() == 1, "C03: a DIFAT sector was added although the existing one has a free entry");
    let f = a.inner();
    assert!(f.u32_at((d0 + 1) as u64, 4 * 126) == nf, "C02/C03: the 236th FAT sector is not entry 126 of the first DIFAT sector");
    assert!(f.u32_at((d0 + 1) as u64, 508) == before_link, "C03: the DIFAT sector's chain pointer was overwritten");
    assert!(f.u32_at(0, 44) == 236, "C02/C03: header FAT sector count");
    kani::cover!(true, "end");
    std::mem::forget(a);
}

// 237th FAT sector: the first DIFAT sector is full (127 entries); a second one is created and linked
#[kani::proof]
#[kani::stub(std::fmt::format, stub_format)]
#[kani::unwind(260)]
fn difat_second_sector() {
    let nfat = 236;
    let nf = (nfat * 128) as u32;
    let nd = nf + 1;
    let d0: u32 = 14000;
    let mut a = mk(nfat, &[d0], [0, (nf + 1) as u64, (d0 + 1) as u64, (nd + 1) as u64, 2]);
    let e126 = a.inner().u32_at((d0 + 1) as u64, 4 * 126);
    let r = aacc::append_fat_sector(&mut a);
    assert!(r.is_ok(), "C03: append_fat_sector failed");
    let ds = aacc::difat_sector_ids(&a);
    assert!(ds.len() == 2 && ds[0] == d0 && ds[1] == nd, "C03: second DIFAT sector not created when the first is full (a DIFAT sector holds 127 entries, the 128th slot is the chain pointer)");
    let f = a.inner();
    assert!(f.u32_at((d0 + 1) as u64, 508) == nd, "C02/C03: first DIFAT sector's chain pointer does not link to the second");
    assert!(f.u32_at((d0 + 1) as u64, 4 * 126) == e126, "C03: an entry of the full DIFAT sector was overwritten");
    assert!(f.u32_at((nd + 1) as u64, 0) == nf && f.u32_at((nd + 1) as u64, 4) == FREE && f.u32_at((nd + 1) as u64, 508) == EOC, "C02/C03: second DIFAT sector content");
    assert!(f.u32_at(0, 44) == 237 && f.u32_at(0, 68) == d0 && f.u32_at(0, 72) == 2, "C02/C03: header counts after adding a DIFAT sector");
    let fat = aacc::fat(&a);
    assert!(fat[nf as usize] == FATSECT && fat[nd as usize] == DIFSECT, "C03: new sectors not marked in the FAT");
    kani::cover!(true, "end");
    std::mem::forget(a);
}
