// Validators and chain walkers on arbitrary table contents (no validity
// assumed): C05 (no panic, termination: unwinding assertions), C16 (strict =>
// permissive, documented repairs), C11 (walks on tables that only passed the
// permissive validator).
use super::env::*;
use super::h_alloc::*;
use super::util::*;
use crate::internal::alloc::vacc as aacc;
use crate::internal::{Chain, SectorInit, Validation};
use std::io::ErrorKind;

/// Spec for the FAT as the allocator must see it after the documented repair
/// of unmarked FAT sectors: cell 0 is the (only) FAT sector.
fn spec_fat_ok(f: &[u32; NS]) -> bool {
    let mut ok = true;
    let mut i = 1;
    while i < NS {
        let v = f[i];
        if v <= MAXREG {
            ok &= (v as usize) < NS;
            let mut j = 1;
            while j < NS {
                ok &= i == j || f[j] != v;
                j += 1;
            }
        } else {
            ok &= v != 0xffff_fffb;
        }
        i += 1;
    }
    ok
}

// Allocator::validate, both modes, on the same arbitrary FAT whose sector 0 is
// the FAT sector according to the DIFAT but carries an arbitrary FAT cell.
#[kani::proof]
#[kani::stub(std::fmt::format, stub_format)]
#[kani::unwind(8)]
fn alloc_validate_rel() {
    let f: [u32; NS] = kani::any();
    // links into the FAT sector itself are left out: the format forbids them,
    // the library does not check them, and no property here depends on it
    kani::assume(f[1] != 0 && f[2] != 0 && f[3] != 0);
    let mut a = mk_alloc_from(&f, 0);
    let mut b = mk_alloc_from(&f, 0);
    let rp = aacc::validate(&mut a, Validation::Permissive);
    let rs = aacc::validate(&mut b, Validation::Strict);
    let ok = spec_fat_ok(&f);
    assert!(rp.is_ok() == ok, "C16/C05: permissive FAT validation differs from the specification (an unmarked FAT sector's stale cell must be repaired, not validated as a link)");
    assert!(rs.is_ok() == (ok && f[0] == FATSECT), "C16: strict FAT validation differs from the specification");
    assert!(!rs.is_ok() || rp.is_ok(), "C16: strict accepts a FAT that permissive rejects");
    if rp.is_ok() {
        let fat = aacc::fat(&a);
        assert!(fat.len() == NS && fat[0] == FATSECT, "C16: FAT sector not repaired to FATSECT");
        let mut same = true;
        let mut nfree = 0;
        let mut i = 1;
        while i < NS {
            same &= fat[i] == f[i];
            if f[i] == FREE { nfree += 1; }
            i += 1;
        }
        assert!(same, "C16/C04: validation changed a FAT cell other than the repaired marker");
        assert!(aacc::free_sectors(&a).len() == nfree, "C15/C16: free list after validation is not the set of FREE cells");
        if rs.is_ok() {
            let fb = aacc::fat(&b);
            let mut eq = true;
            i = 0;
            while i < NS { eq &= fb[i] == fat[i]; i += 1; }
            assert!(eq && aacc::free_sectors(&b).len() == nfree, "C16: strict and permissive views of the FAT differ");
        }
    }
    if let Err(e) = &rp {
        assert!(e.kind() == ErrorKind::InvalidData, "C05: wrong error kind");
    }
    kani::cover!(rp.is_ok() && !rs.is_ok(), "tolerated: unmarked FAT sector");
    kani::cover!(rs.is_ok(), "strict ok");
    kani::cover!(!rp.is_ok(), "rejected");
    std::mem::forget(a);
    std::mem::forget(b);
}

// Chain::new from ANY start sector over ANY FAT accepted by the permissive
// validator: terminates within NS+1 steps (unwinding assertion = no hang),
// never panics, and an Ok chain follows the FAT.
#[kani::proof]
#[kani::stub(std::fmt::format, stub_format)]
#[kani::unwind(8)]
fn chain_new_total() {
    let mut f: [u32; NS] = kani::any();
    f[0] = FATSECT;
    kani::assume(spec_fat_ok(&f));
    let mut a = mk_alloc_from(&f, 0);
    let start: u32 = kani::any();
    let r = Chain::new(&mut a, start, SectorInit::Zero);
    match r {
        Ok(ch) => {
            let n = ch.num_sectors();
            assert!(n <= NS, "C05: chain longer than the FAT");
            assert!(ch.start_sector_id() == if n == 0 { EOC } else { start }, "C04: chain start");
            assert!(ch.len() == (n * SEC) as u64, "C04: chain length");
            kani::cover!(n == 3, "three-sector chain");
            std::mem::forget(ch);
        }
        Err(e) => {
            assert!(e.kind() == ErrorKind::InvalidData, "C05: wrong error kind");
            assert!(start != EOC, "C04: the empty chain must be accepted");
        }
    }
    std::mem::forget(a);
}
