// C05 "memory proportional to the input": open_internal with the header's
// COUNT fields (FAT sectors, MiniFAT sectors, DIFAT sectors, directory
// sectors) arbitrary.  Permissive open does not trust them - and must not
// size an allocation by them either.  `Vec::with_capacity` is replaced by a
// stub that asserts the requested capacity is bounded by the size of the file
// (within the bound the stub reserves what was asked for): a
// reservation taken from an untrusted count field then fails the assertion,
// whatever the allocator would have done with it.
use super::env::*;
use super::h_open::*;
use super::util::*;
use crate::internal::alloc::vacc as aacc;
use crate::internal::directory::vacc as dacc;
use crate::internal::minialloc::vacc as macc;
use crate::internal::Validation;
use crate::CompoundFile;

pub fn bounded_with_capacity<T>(capacity: usize) -> Vec<T> {
    // the whole file is 6 sectors = 3072 bytes; nothing read from it needs more elements than it has bytes
    assert!(capacity <= 4 * SEC * 6, "C05: an allocation is sized by a number the file merely claims (memory not proportional to the input)");
    // std itself relies on the capacity it asked for (e.g. collect() writes the first element unchecked)
    let mut v = Vec::new();
    v.reserve_exact(capacity);
    v
}

#[kani::proof]
#[kani::stub(std::fmt::format, stub_format)]
#[kani::stub(std::vec::Vec::with_capacity, bounded_with_capacity)]
#[kani::stub(crate::internal::path::cfb_uppercase_char, super::uptable::table_upper)]
#[kani::unwind(140)]
fn open_counts_alloc() {
    let mut img = open_image(192, 2);
    let nfat: u32 = kani::any();
    let nmini: u32 = kani::any();
    let ndifat: u32 = kani::any();
    let ndir: u32 = kani::any();
    put32(&mut img.data, 40, ndir);
    put32(&mut img.data, 44, nfat);
    put32(&mut img.data, 64, nmini);
    put32(&mut img.data, 72, ndifat);
    let file = PtrFile::over(&mut img.data, SEC * 6);
    let r = CompoundFile::open_internal(file, Validation::Permissive, 1024);
    assert!(r.is_ok(), "C16: permissive open must tolerate wrong sector counts in the header");
    let c = r.unwrap();
    {
        let g = c.minialloc.read().unwrap();
        let fat = aacc::fat(dacc::allocator(macc::directory(&g)));
        assert!(fat.len() == 5 && macc::minifat(&g).len() == 3 && dacc::dir_entries(macc::directory(&g)).len() == 8,
            "C16/C05: table sizes come from the chains in the file, not from the header's count fields");
    }
    kani::cover!(nfat == 0x4000_0000, "a huge FAT sector count");
    kani::cover!(true, "end");
    std::mem::forget(c);
}
