// Access shim (child of `sector`): constructors/accessors for private fields.
#![allow(dead_code)]
use super::*;
pub(crate) fn mk_sectors<F>(inner: F, version: Version, num_sectors: u32) -> Sectors<F> {
    Sectors { inner, version, num_sectors }
}
pub(crate) fn inner_mut<F>(s: &mut Sectors<F>) -> &mut F {
    &mut s.inner
}
pub(crate) fn set_num_sectors<F>(s: &mut Sectors<F>, n: u32) {
    s.num_sectors = n;
}
