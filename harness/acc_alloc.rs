#![allow(dead_code)]
use super::*;
pub(crate) fn mk<F>(
    sectors: Sectors<F>,
    difat_sector_ids: Vec<u32>,
    difat: Vec<u32>,
    fat: Vec<u32>,
    free_sectors: Vec<u32>,
) -> Allocator<F> {
    Allocator { sectors, difat_sector_ids, difat, fat, free_sectors }
}
pub(crate) fn fat<F>(a: &Allocator<F>) -> &Vec<u32> { &a.fat }
pub(crate) fn difat<F>(a: &Allocator<F>) -> &Vec<u32> { &a.difat }
pub(crate) fn difat_sector_ids<F>(a: &Allocator<F>) -> &Vec<u32> { &a.difat_sector_ids }
pub(crate) fn free_sectors<F>(a: &Allocator<F>) -> &Vec<u32> { &a.free_sectors }
pub(crate) fn sectors<F>(a: &Allocator<F>) -> &Sectors<F> { &a.sectors }
pub(crate) fn sectors_mut<F>(a: &mut Allocator<F>) -> &mut Sectors<F> { &mut a.sectors }
pub(crate) fn validate<F>(a: &mut Allocator<F>, v: Validation) -> io::Result<()> { a.validate(v) }
pub(crate) fn allocate_sector<F: Write + Seek>(a: &mut Allocator<F>, init: SectorInit) -> io::Result<u32> { a.allocate_sector(init) }
pub(crate) fn append_fat_sector<F: Write + Seek>(a: &mut Allocator<F>) -> io::Result<()> { a.append_fat_sector() }
pub(crate) fn free_sector<F: Write + Seek>(a: &mut Allocator<F>, id: u32) -> io::Result<()> { a.free_sector(id) }
pub(crate) fn set_fat<F: Write + Seek>(a: &mut Allocator<F>, i: u32, v: u32) -> io::Result<()> { a.set_fat(i, v) }
