#![allow(dead_code)]
use super::*;
pub(crate) fn mk<F: Read + Write + Seek + 'static>(
    minialloc: Weak<RwLock<MiniAllocator<F>>>,
    stream_id: u32,
    total_len: u64,
    buffer: StreamBuffer,
    buf_offset_from_start: u64,
    dirty: bool,
) -> Stream<F> {
    let mut s = Stream { minialloc, stream_id, total_len, buffer, buf_offset_from_start, flusher: None };
    if dirty {
        s.mark_modified();
    }
    s
}
pub(crate) fn mk_ro<F>(
    minialloc: Weak<RwLock<MiniAllocator<F>>>,
    stream_id: u32,
    total_len: u64,
    buffer: StreamBuffer,
    buf_offset_from_start: u64,
) -> Stream<F> {
    Stream { minialloc, stream_id, total_len, buffer, buf_offset_from_start, flusher: None }
}
pub(crate) fn position<F>(s: &Stream<F>) -> u64 { s.current_position() }
pub(crate) fn total_len<F>(s: &Stream<F>) -> u64 { s.total_len }
pub(crate) fn buf_offset<F>(s: &Stream<F>) -> u64 { s.buf_offset_from_start }
pub(crate) fn buffer<F>(s: &Stream<F>) -> &StreamBuffer { &s.buffer }
pub(crate) fn is_dirty<F>(s: &Stream<F>) -> bool { s.flusher.is_some() }
pub(crate) fn stream_id<F>(s: &Stream<F>) -> u32 { s.stream_id }
pub(crate) fn read_data<F: Read + Seek>(m: &mut MiniAllocator<F>, id: u32, off: u64, buf: &mut [u8]) -> io::Result<usize> {
    read_data_from_stream(m, id, off, buf)
}
pub(crate) fn write_data<F: Read + Write + Seek>(m: &mut MiniAllocator<F>, id: u32, off: u64, buf: &[u8]) -> io::Result<()> {
    write_data_to_stream(m, id, off, buf)
}
pub(crate) fn resize<F: Read + Write + Seek>(m: &mut MiniAllocator<F>, id: u32, new_len: u64) -> io::Result<()> {
    resize_stream(m, id, new_len)
}

/// Replacement for `Stream::minialloc()` (Weak::upgrade): same result while the
/// CompoundFile is alive, without the compare-exchange loop that CBMC can
/// only unwind to the bound.  The harness keeps the Arc alive.
pub(crate) fn stub_upgrade<F>(s: &Stream<F>) -> io::Result<Arc<RwLock<MiniAllocator<F>>>> {
    let p = s.minialloc.as_ptr();
    unsafe {
        Arc::increment_strong_count(p);
        Ok(Arc::from_raw(p))
    }
}
