// Directory layer (directory.rs): lookup / insert / remove as one step from
// an arbitrary valid sibling tree (links, colours, names symbolic), against
// an abstract map model.  Serves C01 (tree model), C07 (stream ids are
// stable), C02 (write-through), C03 (search tree, no adjacent reds, blank
// unallocated entries), C04 (any valid tree shape), C09 (case-insensitive
// lookup), C15 (slot reuse).
use super::env::*;
use super::h_dirent::*;
use super::util::*;
use super::uptable::table_upper;
use crate::internal::alloc::vacc as aacc;
use crate::internal::directory::vacc as dacc;
use crate::internal::timestamp::vacc as tacc;
use crate::internal::{Allocator, Color, DirEntry, Directory, ObjType, Sectors, Version};

pub const NSL: usize = 8; // directory slots (two v3 directory sectors)
pub const NDS: usize = 3; // sectors: 0 = FAT, 1 and 2 = directory chain
pub const ND: usize = SEC * (1 + NDS + 1);
pub type FD = ArrFile<ND>;

pub fn up(c: u8) -> u8 {
    if c >= b'a' && c <= b'z' { c - 32 } else { c }
}

/// Pre-state: root in slot 0 and `n` siblings in slots 1..=n (children of the
/// root), remaining slots unallocated.  Names are single ASCII characters,
/// pairwise different ignoring case; links form an arbitrary valid search
/// tree; colours are arbitrary with no two adjacent reds.
pub struct Tree {
    pub em: [EM; NSL],
    pub n: usize,
}

/// Tree with a concrete shape: `child` = slot of the top node, `links[i-1]` =
/// (left, right) of slot i, `keys[i-1]` = its one-character name.  Colours
/// (no two adjacent reds), state bits, times are symbolic.
pub fn shaped_tree(n: usize, child: u32, links: &[(u32, u32)], keys: &[u8], all_streams: bool) -> Tree {
    let mut em = [em_blank(); NSL];
    em[0].ty = 5;
    em[0].nlen = 10;
    let rn = b"Root Entry";
    let mut k = 0;
    while k < 10 { em[0].name[k] = rn[k]; k += 1; }
    em[0].color = 1;
    em[0].start = EOC;
    em[0].state = kani::any();
    em[0].child = child;
    let mut i = 1;
    while i <= n {
        let mut e = em_blank();
        let st: bool = kani::any();
        e.ty = if all_streams || st { 2 } else { 1 };
        e.nlen = 1;
        e.name[0] = keys[i - 1];
        e.color = if kani::any() { 1 } else { 0 };
        e.state = kani::any();
        if e.ty == 2 {
            e.start = EOC;
        } else {
            e.ct = kani::any();
            e.mt = kani::any();
            e.d1 = kani::any();
        }
        e.left = links[i - 1].0;
        e.right = links[i - 1].1;
        em[i] = e;
        i += 1;
    }
    // C03 pre-state: no two adjacent reds
    i = 1;
    while i <= n {
        if em[i].left != NOSTREAM {
            kani::assume(em[i].color == 1 || em[em[i].left as usize].color == 1);
        }
        if em[i].right != NOSTREAM {
            kani::assume(em[i].color == 1 || em[em[i].right as usize].color == 1);
        }
        i += 1;
    }
    Tree { em, n }
}

pub fn mk_dir(t: &Tree) -> Directory<FD> {
    let mut data = [0u8; ND];
    // FAT sector 0: [FAT, 2, EOC], rest FREE
    let ff = [0xffu8; SEC];
    data[soff(0)..soff(0) + SEC].copy_from_slice(&ff);
    put32(&mut data, soff(0), FATSECT);
    put32(&mut data, soff(0) + 4, 2);
    put32(&mut data, soff(0) + 8, EOC);
    put32(&mut data, 44, 1);
    put32(&mut data, 48, 1); // first directory sector
    put32(&mut data, 76, 0);
    let mut entries: Vec<DirEntry> = Vec::with_capacity(NSL + 1);
    let mut s = 0;
    while s < NSL {
        let b = enc(&t.em[s]);
        let sector = if s < 4 { 1 } else { 2 };
        let off = soff(sector) + DIRENT * (s % 4);
        data[off..off + DIRENT].copy_from_slice(&b);
        entries.push(to_dirent(&t.em[s]));
        s += 1;
    }
    let len = SEC * (1 + NDS);
    let file = ArrFile::new(data, len);
    let sectors = Sectors::new(Version::V3, len as u64, file);
    let mut fat = Vec::with_capacity(NDS + 2);
    fat.push(FATSECT);
    fat.push(2);
    fat.push(EOC);
    let alloc = aacc::mk(sectors, Vec::new(), vec![0u32], fat, Vec::new());
    dacc::mk(alloc, entries, 1)
}

/// C02: every directory slot of the image equals the independent encoding of
/// the cached entry.
pub fn check_dir_coherent(d: &Directory<FD>) {
    let ents = dacc::dir_entries(d);
    assert!(ents.len() == NSL, "C03: directory entry count changed unexpectedly");
    let mut ok = true;
    let mut s = 0;
    while s < NSL {
        let e = &ents[s];
        let mut m = em_blank();
        let nb = e.name.as_bytes();
        assert!(nb.len() <= 31, "C09: cached name longer than 31 units");
        m.nlen = nb.len();
        let mut i = 0;
        while i < nb.len() { m.name[i] = nb[i]; i += 1; }
        m.ty = ty_byte(e.obj_type);
        m.color = if e.color == Color::Red { 0 } else { 1 };
        m.left = e.left_sibling;
        m.right = e.right_sibling;
        m.child = e.child;
        let (d1, d2, d3, d4) = e.clsid.as_fields();
        m.d1 = d1; m.d2 = d2; m.d3 = d3; m.d4 = *d4;
        m.state = e.state_bits;
        m.ct = e.creation_time.value();
        m.mt = e.modified_time.value();
        m.start = e.start_sector;
        m.len = e.stream_len;
        let want = enc(&m);
        let sector = if s < 4 { 1 } else { 2 };
        let off = soff(sector) + DIRENT * (s % 4);
        let mut k = 0;
        while k < DIRENT {
            ok &= d.inner().data[off + k] == want[k];
            k += 1;
        }
        s += 1;
    }
    assert!(ok, "C02: directory entry in the image differs from the cached entry (write-through)");
}

/// Walks the cached tree from the root's child looking for `key`;
/// returns the slot or NOSTREAM.  Bounded by NSL steps.
pub fn find(d: &Directory<FD>, key: u8) -> u32 {
    let ents = dacc::dir_entries(d);
    let mut cur = ents[0].child;
    let mut steps = 0;
    while cur != NOSTREAM && steps < NSL {
        assert!((cur as usize) < NSL, "C03: sibling link out of range");
        let e = &ents[cur as usize];
        assert!(e.obj_type == ObjType::Stream || e.obj_type == ObjType::Storage, "C03: tree reaches an unallocated entry");
        let k = up(e.name.as_bytes()[0]);
        if key == k {
            return cur;
        }
        cur = if key < k { e.left_sibling } else { e.right_sibling };
        steps += 1;
    }
    assert!(cur == NOSTREAM, "C03/C05: sibling tree has a cycle");
    NOSTREAM
}

pub fn no_adjacent_reds(d: &Directory<FD>) {
    let ents = dacc::dir_entries(d);
    let mut ok = true;
    let mut i = 1;
    while i < NSL {
        let e = &ents[i];
        if e.obj_type != ObjType::Unallocated && e.color == Color::Red {
            if e.left_sibling != NOSTREAM {
                ok &= ents[e.left_sibling as usize].color == Color::Black;
            }
            if e.right_sibling != NOSTREAM {
                ok &= ents[e.right_sibling as usize].color == Color::Black;
            }
        }
        i += 1;
    }
    assert!(ok, "C03: two adjacent red nodes");
}

// ------------------------------------------------------------------- lookup
macro_rules! dir_lookup_case {
    ($name:ident, $n:expr, $child:expr, $links:expr, $keys:expr) => {
        #[kani::proof]
        #[kani::stub(std::fmt::format, stub_format)]
        #[kani::stub(crate::internal::path::cfb_uppercase_char, table_upper)]
        #[kani::unwind(130)]
        fn $name() {
            let t = shaped_tree($n, $child, &$links, &$keys, true);
            let d = mk_dir(&t);
            // every present key in both letter cases, and every absent gap key
            const CANDS: [&str; 19] = ["b", "B", "d", "D", "f", "F", "h", "H", "j", "J", "a", "c", "E", "g", "I", "k", "M", "_", "["];
            let mut ok = true;
            let mut some_found = false;
            let mut some_absent = false;
            let mut c = 0;
            while c < CANDS.len() {
                let qs = CANDS[c];
                let got = d.stream_id_for_name_chain(&[qs]);
                let mut want = None;
                let mut i = 1;
                while i <= $n {
                    if up(t.em[i].name[0]) == up(qs.as_bytes()[0]) { want = Some(i as u32); }
                    i += 1;
                }
                ok &= got == want;
                some_found |= want.is_some();
                some_absent |= want.is_none();
                c += 1;
            }
            assert!(ok, "C01/C04/C09: lookup differs from the abstract map (case-insensitive, any valid tree shape)");
            kani::cover!(some_found && some_absent, "present and absent names queried");
            std::mem::forget(d);
        }
    };
}

// ------------------------------------------------------------------- remove
macro_rules! dir_remove_case {
    ($name:ident, $n:expr, $child:expr, $links:expr, $keys:expr, $victim:expr) => {
        #[kani::proof]
        #[kani::stub(std::fmt::format, stub_format)]
        #[kani::stub(crate::internal::path::cfb_uppercase_char, table_upper)]
        #[kani::unwind(130)]
        fn $name() {
            let t = shaped_tree($n, $child, &$links, &$keys, true);
            let mut d = mk_dir(&t);
            let victim: usize = $victim;
            // address it by the other letter case
            let c0 = t.em[victim].name[0];
            let q = [if c0 >= b'a' && c0 <= b'z' { c0 - 32 } else { c0 }];
            let qs = unsafe { std::str::from_utf8_unchecked(&q) };
            let r = d.remove_dir_entry(0, qs);
            assert!(r.is_ok(), "C01: removing an existing entry failed");
            let ents = dacc::dir_entries(&d);
            assert!(ents[victim].obj_type == ObjType::Unallocated, "C01/C15: removed entry's slot is not unallocated");
            let mut i = 1;
            while i <= $n {
                if i != victim {
                    let e = &ents[i];
                    assert!(e.obj_type == ObjType::Stream && e.name.as_bytes()[0] == t.em[i].name[0], "C07: stream id changed: a surviving entry is no longer in its slot");
                    assert!(e.state_bits == t.em[i].state && e.start_sector == t.em[i].start && e.stream_len == t.em[i].len, "C07/C01: metadata of another entry changed");
                    assert!(find(&d, up(t.em[i].name[0])) == i as u32, "C01/C03: surviving entry is no longer reachable in the sibling tree");
                }
                i += 1;
            }
            assert!(find(&d, up(t.em[victim].name[0])) == NOSTREAM, "C01: removed name is still found");
            assert!(ents[0].state_bits == t.em[0].state && ents[0].obj_type == ObjType::Root, "C07: root entry changed");
            no_adjacent_reds(&d);
            check_dir_coherent(&d);
            let want = enc(&em_blank());
            let off = soff(if victim < 4 { 1 } else { 2 }) + DIRENT * (victim % 4);
            let mut blank = true;
            let mut k = 0;
            while k < DIRENT { blank &= d.inner().data[off + k] == want[k]; k += 1; }
            assert!(blank, "C03: unallocated entry is not blank in the image");
            kani::cover!(true, "end");
            std::mem::forget(d);
        }
    };
}

// ------------------------------------------------------------------- insert
macro_rules! dir_insert_case {
    ($name:ident, $n:expr, $child:expr, $links:expr, $keys:expr, $newkey:expr, $storage:expr) => {
        #[kani::proof]
        #[kani::stub(std::fmt::format, stub_format)]
        #[kani::stub(std::io::copy, stub_io_copy)]
        #[kani::stub(crate::internal::path::cfb_uppercase_char, table_upper)]
        #[kani::stub(crate::internal::timestamp::Timestamp::now, tacc::any_now)]
        #[kani::unwind(130)]
        fn $name() {
            let t = shaped_tree($n, $child, &$links, &$keys, true);
            let mut d = mk_dir(&t);
            let q = [$newkey as u8];
            let qs = unsafe { std::str::from_utf8_unchecked(&q) };
            let ty = if $storage { ObjType::Storage } else { ObjType::Stream };
            let r = d.insert_dir_entry(0, qs, ty);
            assert!(r.is_ok(), "C01: inserting a new name failed");
            let id = r.unwrap() as usize;
            assert!(id == $n + 1, "C15: first unallocated slot not used for the new entry");
            let ents = dacc::dir_entries(&d);
            let e = &ents[id];
            assert!(e.obj_type == ty && e.name.as_bytes()[0] == q[0] && e.name.len() == 1, "C01/C09: new entry not stored verbatim");
            assert!(e.child == NOSTREAM && e.state_bits == 0 && e.stream_len == 0, "C01: new entry not empty");
            if $storage {
                assert!(e.creation_time == e.modified_time, "C17: new storage's creation and modification time differ");
                assert!(e.start_sector == 0, "C03: storage start sector not zero");
            } else {
                assert!(e.creation_time.value() == 0 && e.modified_time.value() == 0 && e.clsid.is_nil(), "C03/C17: stream entry carries timestamps or a CLSID");
                assert!(e.start_sector == EOC, "C03: empty stream has a start sector");
            }
            assert!(find(&d, up(q[0])) == id as u32, "C01: new entry not reachable in the sibling tree");
            let mut i = 1;
            while i <= $n {
                assert!(ents[i].name.as_bytes()[0] == t.em[i].name[0] && ents[i].state_bits == t.em[i].state, "C07: existing entry moved or changed");
                assert!(find(&d, up(t.em[i].name[0])) == i as u32, "C01/C03: existing entry no longer reachable");
                i += 1;
            }
            no_adjacent_reds(&d);
            check_dir_coherent(&d);
            kani::cover!(true, "end");
            std::mem::forget(d);
        }
    };
}

include!("h_dir_gen.rs"); // generated by vlib/shapes.py at overlay build time
