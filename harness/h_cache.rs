// Stream handle (stream.rs + stream_buffer.rs): k symbolically chosen calls on
// a handle compared with a byte vector + cursor after every call (C06), final
// flush must leave exactly the model bytes in storage (C02/C13), identical
// results for each configured maximum buffer size (C18).
//
// Under Kani the three storage functions of stream.rs are replaced
// (kani::stub) by a flat byte-array model - the storage contract that the
// h_stor harnesses check the real functions against.  Natively (counterexample
// replay) the stubs are inactive and the same harness runs on the REAL storage
// layers over a small concrete image with the same initial content.
// Variant `buf8`: the overlay scales STREAM_BUFFER_MIN from 1024 to 8 so that
// refills, growth by x4 and the clamp to the maximum are crossed with a few
// dozen bytes.
use super::env::*;
use super::h_dirent::*;
use crate::internal::alloc::vacc as aacc;
use super::util::*;
use crate::internal::directory::vacc as dacc;
use crate::internal::minialloc::vacc as macc;
use crate::internal::stream::vacc as sacc;
use crate::internal::{MiniAllocator, Stream};
use std::io::{self, ErrorKind, Read, Seek, SeekFrom, Write};
use super::lockty::RwLock;
use std::sync::Arc;

pub const CAP: usize = 32; // model capacity
pub const L0: usize = 12; // initial stream length

static mut MODEL_ON: bool = false; // the overlay's prologues divert the storage functions while set
static mut ST: [u8; CAP] = [0; CAP]; // storage model: bytes
static mut STLEN: usize = 0; // storage model: length
static mut ST_MUTS: u32 = 0; // calls of the storage model's write / resize so far (C10: a refused seek must cause none)
static mut FAIL_BUDGET: u32 = 0; // faults the storage model may still inject
static mut FAILED: u32 = 0; // faults injected so far
static mut FAIL_READS: bool = false;
static mut FAIL_WRITES: bool = false;

pub fn model_on() -> bool {
    unsafe { MODEL_ON }
}

/// A MiniAllocator that only has to exist: root + one stream entry of length L0,
/// no sectors.  The storage functions never reach it while the model is on.
pub type TF = ArrFile<8>;
pub(crate) fn tiny_minialloc() -> MiniAllocator<TF> {
    let mut root = em_blank();
    root.ty = 5; root.nlen = 10;
    let rn = b"Root Entry";
    let mut k = 0;
    while k < 10 { root.name[k] = rn[k]; k += 1; }
    root.color = 1; root.child = 1; root.start = EOC;
    let mut s1 = em_blank();
    s1.ty = 2; s1.nlen = 1; s1.name[0] = b's'; s1.color = 1; s1.start = EOC; s1.len = L0 as u64;
    let mut entries = Vec::with_capacity(2);
    entries.push(to_dirent(&root));
    entries.push(to_dirent(&s1));
    let file = ArrFile::new([0u8; 8], 0);
    let sectors = crate::internal::Sectors::new(crate::internal::Version::V3, 512, file);
    let alloc = aacc::mk(sectors, Vec::new(), Vec::new(), Vec::new(), Vec::new());
    let dir = dacc::mk(alloc, entries, 1);
    macc::mk(dir, Vec::new(), EOC, Vec::new())
}

/// One-shot fault of the storage model: armed by the harness, consumed by the
/// next storage call of the enabled kind.
fn fault(enabled: bool) -> bool {
    unsafe {
        if !enabled || FAIL_BUDGET == 0 {
            return false;
        }
        FAIL_BUDGET -= 1;
        FAILED += 1;
        true
    }
}

fn sync_len<F>(m: &mut MiniAllocator<F>, id: u32) {
    unsafe {
        dacc::dir_entries_mut(macc::directory_mut(m))[id as usize].stream_len = STLEN as u64;
    }
}

pub fn model_read<F: Read + Seek>(_m: &mut MiniAllocator<F>, _id: u32, off: u64, buf: &mut [u8]) -> io::Result<usize> {
    unsafe {
        if fault(FAIL_READS) {
            return Err(io::Error::from(ErrorKind::Other));
        }
        let len = STLEN as u64;
        let n = if off >= len { 0 } else if len - off < buf.len() as u64 { (len - off) as usize } else { buf.len() };
        let mut i = 0;
        while i < n {
            buf[i] = ST[off as usize + i];
            i += 1;
        }
        Ok(n)
    }
}

pub fn model_write<F: Read + Write + Seek>(m: &mut MiniAllocator<F>, id: u32, off: u64, buf: &[u8]) -> io::Result<()> {
    unsafe { ST_MUTS += 1; }
    unsafe {
        if fault(FAIL_WRITES) {
            return Err(io::Error::from(ErrorKind::Other));
        }
        assert!(off as usize <= STLEN, "C06: write-back starts beyond the end of the stored stream");
        kani::assume(off as usize + buf.len() <= CAP);
        let mut i = 0;
        while i < buf.len() {
            ST[off as usize + i] = buf[i];
            i += 1;
        }
        if off as usize + buf.len() > STLEN {
            STLEN = off as usize + buf.len();
        }
    }
    sync_len(m, id);
    Ok(())
}

pub fn model_resize<F: Read + Write + Seek>(m: &mut MiniAllocator<F>, id: u32, new_len: u64) -> io::Result<()> {
    unsafe { ST_MUTS += 1; }
    unsafe {
        if fault(FAIL_WRITES) {
            return Err(io::Error::from(ErrorKind::Other));
        }
        kani::assume(new_len as usize <= CAP);
        let mut i = STLEN;
        while i < new_len as usize {
            ST[i] = 0;
            i += 1;
        }
        STLEN = new_len as usize;
    }
    sync_len(m, id);
    Ok(())
}

/// Splits a result without running io::Error's drop glue (decode_repr of the
/// tagged pointer on drop is what CBMC chokes on): the error is forgotten
/// after its kind has been read.
fn split<T>(r: io::Result<T>) -> (Option<T>, Option<ErrorKind>) {
    match r {
        Ok(v) => (Some(v), None),
        Err(e) => {
            let k = e.kind();
            std::mem::forget(e);
            (None, Some(k))
        }
    }
}

pub struct Model {
    pub b: [u8; CAP],
    pub len: usize,
    pub pos: usize,
}

pub(crate) fn init() -> Model {
    let content: [u8; L0] = kani::any();
    let mut b = [0u8; CAP];
    let mut i = 0;
    while i < L0 {
        b[i] = content[i];
        unsafe { ST[i] = content[i]; }
        i += 1;
    }
    unsafe {
        STLEN = L0;
        MODEL_ON = true;
    }
    Model { b, len: L0, pos: 0 }
}

/// One symbolically chosen call on the handle, checked against the model.
fn step(s: &mut Stream<TF>, m: &mut Model, fixed: u8) {
    let op: u8 = if fixed < 6 { fixed } else { kani::any() };
    kani::assume(op < 6);
    if op == 0 {
        let n: usize = kani::any();
        kani::assume(n <= 6);
        let mut buf = [0u8; 6];
        let (r, _) = split(s.read(&mut buf[..n]));
        assert!(r.is_some(), "C06: read failed without a fault");
        let got = r.unwrap();
        let avail = m.len - m.pos;
        assert!(got <= n && got <= avail, "C06: read returned more bytes than requested or than the stream holds");
        assert!(got > 0 || n == 0 || avail == 0, "C06: read returned 0 before the end of the stream");
        let mut ok = true;
        let mut k = 0;
        while k < got {
            ok &= buf[k] == m.b[m.pos + k];
            k += 1;
        }
        assert!(ok, "C06: read returned bytes that differ from the bytes last written");
        m.pos += got;
    } else if op == 1 {
        let n: usize = kani::any();
        kani::assume(n <= 6 && m.pos + n <= CAP);
        let buf: [u8; 6] = kani::any();
        let (r, _) = split(s.write(&buf[..n]));
        assert!(r.is_some(), "C06: write failed without a fault");
        let got = r.unwrap();
        assert!(got <= n, "C06: write claims more bytes than given");
        assert!(got > 0 || n == 0, "C06: write accepted nothing of a non-empty buffer");
        let mut i = 0;
        while i < got {
            m.b[m.pos + i] = buf[i];
            i += 1;
        }
        m.pos += got;
        if m.pos > m.len {
            m.len = m.pos;
        }
    } else if op == 2 || op == 5 {
        let x: i64 = kani::any();
        kani::assume(x >= -40 && x <= 40);
        kani::assume(op != 2 || x >= 0);
        let cur: bool = kani::any();
        let (arg, target) = if op == 2 {
            (SeekFrom::Start(x as u64), x)
        } else if cur {
            (SeekFrom::Current(x), m.pos as i64 + x)
        } else {
            (SeekFrom::End(x), m.len as i64 + x)
        };
        let (r, k) = split(s.seek(arg));
        if target >= 0 && target <= m.len as i64 {
            assert!(r == Some(target as u64), "C06: seek inside [0, len] must succeed and return the new position");
            m.pos = target as usize;
        } else {
            assert!(r.is_none() && k == Some(ErrorKind::InvalidInput), "C06/C10: seek outside [0, len] must fail with InvalidInput");
        }
    } else if op == 3 {
        let x: usize = kani::any();
        kani::assume(x <= 24);
        let (r, _) = split(s.set_len(x as u64));
        assert!(r.is_some(), "C06: set_len failed without a fault");
        let mut i = m.len;
        while i < x {
            m.b[i] = 0;
            i += 1;
        }
        m.len = x;
        if m.pos > x {
            m.pos = x;
        }
    } else {
        let (r, _) = split(s.flush());
        assert!(r.is_some(), "C06/C13: flush failed without a fault");
    }
    assert!(s.len() == m.len as u64, "C06: len() is not current");
    assert!(sacc::position(s) == m.pos as u64, "C06: position differs from the byte-vector cursor");
}

macro_rules! cache_hist {
    ($name:ident, $k:expr, $maxbuf:expr) => {
        #[kani::proof]
        #[kani::stub(std::fmt::format, stub_format)]
        #[kani::stub(std::io::copy, stub_io_copy)]
        #[kani::stub(crate::internal::stream::Stream::minialloc, sacc::stub_upgrade)]
        #[kani::unwind(34)]
        fn $name() {
            let mut model = init();
            let arc = Arc::new(RwLock::new(tiny_minialloc()));
            let mut s = Stream::new(&arc, 1, $maxbuf);
            let mut i = 0;
            while i < $k {
                step(&mut s, &mut model, 255);
                i += 1;
            }
            let flushes0 = { let g = arc.read().unwrap(); g.inner().flushes };
            let (r, _) = split(s.flush());
            assert!(r.is_some(), "C13: final flush failed without a fault");
            {
                let mut g = arc.write().unwrap();
                assert!(g.inner().flushes > flushes0, "C13: Stream::flush returned Ok without flushing the underlying file (data written back earlier by a seek / refill / set_len is not durable until the file itself is flushed)");
                let e_len = dacc::dir_entries(macc::directory(&g))[1].stream_len;
                assert!(e_len == model.len as u64, "C02/C13: after flush the stored length differs from the handle's length");
                let mut back = [0u8; CAP];
                let (r, _) = split(sacc::read_data(&mut g, 1, 0, &mut back[..]));
                assert!(r == Some(model.len), "C02/C13: stored stream cannot be read back in full after flush");
                let mut ok = true;
                let mut q = 0;
                while q < model.len {
                    ok &= back[q] == model.b[q];
                    q += 1;
                }
                assert!(ok, "C02/C13: after a successful flush the storage does not hold the bytes accepted by write");
                assert!(g.inner().flushes >= 1, "C13: Stream::flush did not flush the underlying file");
            }
            kani::cover!(model.len > L0, "stream grew");
            kani::cover!(model.len < L0, "stream shrank");
            std::mem::forget(s);
            std::mem::forget(arc);
        }
    };
}
cache_hist!(cache_hist2_min, 2, 0);
cache_hist!(cache_hist3_min, 3, 0);
cache_hist!(cache_hist2_b12, 2, 12);
cache_hist!(cache_hist3_b12, 3, 12);
cache_hist!(cache_hist3_b32, 3, 32);
cache_hist!(cache_hist4_min, 4, 0);

// Sequences with CONCRETE operations (kind and argument from a fixed table of 18
// variants sitting on / next to the 8-byte window and the 12-byte initial length)
// and symbolic DATA: all 324 two-call sequences and a curated set of longer ones
// are generated by vlib/seqs.py (h_cache_gen.rs).  Symbolic operation choice
// (cache_hist*) explodes in CBMC (slices of a heap Vec with symbolic bounds).
pub fn op_c(s: &mut Stream<TF>, m: &mut Model, code: u8) {
    match code {
        0 => do_read(s, m, 3),
        1 => do_read(s, m, 6),
        2 => do_write(s, m, 2),
        3 => do_write(s, m, 6),
        4 => do_write(s, m, 10),
        5 => do_seek(s, m, SeekFrom::Start(0)),
        6 => do_seek(s, m, SeekFrom::Start(4)),
        7 => do_seek(s, m, SeekFrom::Start(10)),
        8 => do_seek(s, m, SeekFrom::Start(25)),
        9 => do_seek(s, m, SeekFrom::Current(-3)),
        10 => do_seek(s, m, SeekFrom::Current(5)),
        11 => do_seek(s, m, SeekFrom::End(-2)),
        12 => do_seek(s, m, SeekFrom::End(1)),
        13 => do_set_len(s, m, 0),
        14 => do_set_len(s, m, 7),
        15 => do_set_len(s, m, 20),
        16 => do_flush(s),
        18 => unsafe { FAIL_BUDGET = 1; FAIL_READS = true; FAIL_WRITES = false; },
        19 => unsafe { FAIL_BUDGET = 1; FAIL_WRITES = true; FAIL_READS = false; },
        20 => do_read_maybe_fail(s, m, 6),
        21 => do_flush_maybe_fail(s),
        22 => do_seek_maybe_fail(s, m, SeekFrom::Start(0)),
        _ => do_set_len(s, m, 12),
    }
    assert!(s.len() == m.len as u64, "C06: len() is not current");
    assert!(sacc::position(s) == m.pos as u64, "C06: position differs from the byte-vector cursor");
}

fn do_read(s: &mut Stream<TF>, m: &mut Model, n: usize) {
    let mut buf = [0u8; 10];
    let (r, _) = split(s.read(&mut buf[..n]));
    assert!(r.is_some(), "C06: read failed without a fault");
    let got = r.unwrap();
    let avail = m.len - m.pos;
    assert!(got <= n && got <= avail, "C06: read returned more bytes than requested or than the stream holds");
    assert!(got > 0 || n == 0 || avail == 0, "C06: read returned 0 before the end of the stream");
    let mut ok = true;
    let mut k = 0;
    while k < got {
        ok &= buf[k] == m.b[m.pos + k];
        k += 1;
    }
    assert!(ok, "C06: read returned bytes that differ from the bytes last written");
    m.pos += got;
}

fn do_write(s: &mut Stream<TF>, m: &mut Model, n: usize) {
    kani::assume(m.pos + n <= CAP);
    let buf: [u8; 10] = kani::any();
    let (r, _) = split(s.write(&buf[..n]));
    assert!(r.is_some(), "C06: write failed without a fault");
    let got = r.unwrap();
    assert!(got <= n, "C06: write claims more bytes than given");
    assert!(got > 0 || n == 0, "C06: write accepted nothing of a non-empty buffer");
    let mut i = 0;
    while i < got {
        m.b[m.pos + i] = buf[i];
        i += 1;
    }
    m.pos += got;
    if m.pos > m.len {
        m.len = m.pos;
    }
}

fn do_seek(s: &mut Stream<TF>, m: &mut Model, arg: SeekFrom) {
    let target: i64 = match arg {
        SeekFrom::Start(x) => x as i64,
        SeekFrom::Current(x) => m.pos as i64 + x,
        SeekFrom::End(x) => m.len as i64 + x,
    };
    let muts0 = unsafe { ST_MUTS };
    let (r, k) = split(s.seek(arg));
    if target >= 0 && target <= m.len as i64 {
        assert!(r == Some(target as u64), "C06: seek inside [0, len] must succeed and return the new position");
        m.pos = target as usize;
    } else {
        assert!(r.is_none() && k == Some(ErrorKind::InvalidInput), "C06/C10: seek outside [0, len] must fail with InvalidInput");
        assert!(unsafe { ST_MUTS } == muts0, "C10: a refused seek wrote to the stream's storage (buffered data written back before the target was validated): the underlying bytes changed");
    }
}

fn do_set_len(s: &mut Stream<TF>, m: &mut Model, x: usize) {
    let (r, _) = split(s.set_len(x as u64));
    assert!(r.is_some(), "C06: set_len failed without a fault");
    let mut i = m.len;
    while i < x {
        m.b[i] = 0;
        i += 1;
    }
    m.len = x;
    if m.pos > x {
        m.pos = x;
    }
}

/// C12: a read under an armed storage read fault: Err (position unchanged) or the true bytes.
fn do_read_maybe_fail(s: &mut Stream<TF>, m: &mut Model, n: usize) {
    let before = unsafe { FAILED };
    let mut buf = [0u8; 10];
    let (r, _) = split(s.read(&mut buf[..n]));
    let injected = unsafe { FAILED } != before;
    match r {
        None => {
            assert!(injected, "C12: read failed although no fault was injected");
            assert!(sacc::position(s) == m.pos as u64, "C12: a failed read moved the position");
        }
        Some(got) => {
            let avail = m.len - m.pos;
            assert!(got <= n && got <= avail && (got > 0 || avail == 0), "C12: read count under fault injection");
            let mut ok = true;
            let mut k = 0;
            while k < got {
                ok &= buf[k] == m.b[m.pos + k];
                k += 1;
            }
            assert!(ok, "C12: a read that returned Ok returned bytes that differ from the stream's true content (stale window after a failed refill)");
            m.pos += got;
        }
    }
    unsafe { FAIL_BUDGET = 0; }
}

/// C13: a flush under an armed storage write fault: the error surfaces.
fn do_flush_maybe_fail(s: &mut Stream<TF>) {
    let before = unsafe { FAILED };
    let (r, _) = split(s.flush());
    let injected = unsafe { FAILED } != before;
    if injected {
        assert!(r.is_none(), "C13: a failure while writing the buffer back was swallowed by flush");
    } else {
        assert!(r.is_some(), "C13: flush failed although no fault was injected");
    }
    unsafe { FAIL_BUDGET = 0; }
}

/// C13: a seek that has to write the dirty window back under an armed write fault.
fn do_seek_maybe_fail(s: &mut Stream<TF>, m: &mut Model, arg: SeekFrom) {
    let before = unsafe { FAILED };
    let (r, _) = split(s.seek(arg));
    let injected = unsafe { FAILED } != before;
    if injected {
        assert!(r.is_none(), "C13: a failure while writing the buffer back was swallowed by seek");
        assert!(sacc::position(s) == m.pos as u64, "C13/C10: a failed seek moved the position");
    } else {
        assert!(r == Some(0), "C06: seek to the start");
        m.pos = 0;
    }
    unsafe { FAIL_BUDGET = 0; }
}

fn do_flush(s: &mut Stream<TF>) {
    let (r, _) = split(s.flush());
    assert!(r.is_some(), "C06/C13: flush failed without a fault");
}

macro_rules! cache_seq {
    ($name:ident, [$($op:expr),*], $maxbuf:expr) => {
        #[kani::proof]
        #[kani::stub(std::fmt::format, stub_format)]
        #[kani::stub(std::io::copy, stub_io_copy)]
        #[kani::stub(crate::internal::stream::Stream::minialloc, sacc::stub_upgrade)]
        #[kani::unwind(34)]
        fn $name() {
            let mut model = init();
            let arc = Arc::new(RwLock::new(tiny_minialloc()));
            let mut s = Stream::new(&arc, 1, $maxbuf);
            $( op_c(&mut s, &mut model, $op); )*
            let flushes0 = { let g = arc.read().unwrap(); g.inner().flushes };
            let (r, _) = split(s.flush());
            assert!(r.is_some(), "C13: final flush failed without a fault");
            {
                let mut g = arc.write().unwrap();
                assert!(g.inner().flushes > flushes0, "C13: Stream::flush returned Ok without flushing the underlying file (data written back earlier by a seek / refill / set_len is not durable until the file itself is flushed)");
                let e_len = dacc::dir_entries(macc::directory(&g))[1].stream_len;
                assert!(e_len == model.len as u64, "C02/C13: after flush the stored length differs from the handle's length");
                let mut back = [0u8; CAP];
                let (r, _) = split(sacc::read_data(&mut g, 1, 0, &mut back[..]));
                assert!(r == Some(model.len), "C02/C13: stored stream cannot be read back in full after flush");
                let mut ok = true;
                let mut q = 0;
                while q < model.len {
                    ok &= back[q] == model.b[q];
                    q += 1;
                }
                assert!(ok, "C02/C13: after a successful flush the storage does not hold the bytes accepted by write");
                assert!(g.inner().flushes >= 1, "C13: Stream::flush did not flush the underlying file");
            }
            kani::cover!(true, "end");
            std::mem::forget(s);
            std::mem::forget(arc);
        }
    };
}

include!("h_cache_gen.rs"); // generated by vlib/seqs.py at overlay build time

/// Same result as `v.resize(n, val)` for n <= CAP, through loops with a fixed
/// bound instead of an allocation of symbolic size (the overlay routes the two
/// `self.data.resize(..)` sites of stream_buffer.rs here in the cache variant).
pub fn vec_resize(v: &mut Vec<u8>, n: usize, val: u8) {
    kani::assume(n <= CAP);
    let old = v.len();
    let mut nv: Vec<u8> = Vec::with_capacity(CAP);
    let mut i = 0;
    while i < CAP {
        if i < n {
            nv.push(if i < old { v[i] } else { val });
        }
        i += 1;
    }
    *v = nv;
}
