// Stream handle (stream.rs + stream_buffer.rs) over the REAL storage layers on
// a small concrete layout, driven by k symbolically chosen calls and compared
// with a byte vector + cursor after every call (C06); final flush must leave
// exactly the model bytes in the image (C02/C13); results identical for each
// configured maximum buffer size (C18).  Variant `buf8`: the overlay scales
// STREAM_BUFFER_MIN from 1024 to 8 so that window refills, growth by x4 and the
// clamp to the maximum are all crossed with streams of a few dozen bytes.
use super::env::*;
use super::h_stor::*;
use super::util::*;
use crate::internal::directory::vacc as dacc;
use crate::internal::minialloc::vacc as macc;
use crate::internal::stream::vacc as sacc;
use crate::internal::stream_buffer::vacc as bacc;
use crate::internal::{MiniAllocator, Stream};
use std::io::{BufRead, ErrorKind, Read, Seek, SeekFrom, Write};
use std::sync::{Arc, RwLock};

pub const CAP: usize = 64; // model capacity
pub const L0: usize = 20; // initial stream length

pub struct Model {
    pub b: [u8; CAP],
    pub len: usize,
    pub pos: usize,
}

fn init_model(p: &Parts) -> Model {
    // stream s = mini sector 0 (20 bytes)
    let mut b = [0u8; CAP];
    let mut i = 0;
    while i < L0 {
        b[i] = p.data[soff(3) + i];
        i += 1;
    }
    Model { b, len: L0, pos: 0 }
}

/// One symbolically chosen call on the handle, checked against the model.
fn step<F: Read + Write + Seek + 'static>(s: &mut Stream<F>, m: &mut Model) {
    let op: u8 = kani::any();
    kani::assume(op < 6);
    if op == 0 {
        let n: usize = kani::any();
        kani::assume(n <= 12);
        let mut buf = [0u8; 12];
        let r = s.read(&mut buf[..n]);
        assert!(r.is_ok(), "C06: read failed without a fault");
        let got = r.unwrap();
        let avail = m.len - m.pos;
        assert!(got <= n && got <= avail, "C06: read returned more bytes than requested or than the stream holds");
        assert!(got > 0 || n == 0 || avail == 0, "C06: read returned 0 before the end of the stream");
        if got > 0 {
            let k = any_usize_below(got);
            assert!(buf[k] == m.b[m.pos + k], "C06: read returned bytes that differ from the bytes last written");
        }
        m.pos += got;
    } else if op == 1 {
        let n: usize = kani::any();
        kani::assume(n <= 12 && m.pos + n <= CAP);
        let buf: [u8; 12] = kani::any();
        let r = s.write(&buf[..n]);
        assert!(r.is_ok(), "C06: write failed without a fault");
        let got = r.unwrap();
        assert!(got <= n, "C06: write claims more bytes than given");
        assert!(got > 0 || n == 0, "C06: write accepted nothing of a non-empty buffer");
        let mut i = 0;
        while i < got {
            m.b[m.pos + i] = buf[i];
            i += 1;
        }
        m.pos += got;
        if m.pos > m.len {
            m.len = m.pos;
        }
    } else if op == 2 || op == 5 {
        let x: i64 = kani::any();
        kani::assume(x >= -80 && x <= 80);
        let (arg, target) = if op == 2 {
            (SeekFrom::Start(x as u64), x)
        } else if kani::any() {
            (SeekFrom::Current(x), m.pos as i64 + x)
        } else {
            (SeekFrom::End(x), m.len as i64 + x)
        };
        kani::assume(op != 2 || x >= 0);
        let r = s.seek(arg);
        if target >= 0 && target <= m.len as i64 {
            assert!(r.is_ok() && r.unwrap() == target as u64, "C06: seek inside [0, len] must succeed and return the new position");
            m.pos = target as usize;
        } else {
            assert!(r.is_err() && r.unwrap_err().kind() == ErrorKind::InvalidInput, "C06/C10: seek outside [0, len] must fail with InvalidInput");
        }
    } else if op == 3 {
        let x: usize = kani::any();
        kani::assume(x <= 40);
        let r = s.set_len(x as u64);
        assert!(r.is_ok(), "C06: set_len failed without a fault");
        let mut i = m.len;
        while i < x {
            m.b[i] = 0;
            i += 1;
        }
        m.len = x;
        if m.pos > x {
            m.pos = x;
        }
    } else {
        let r = s.flush();
        assert!(r.is_ok(), "C06/C13: flush failed without a fault");
    }
    assert!(s.len() == m.len as u64, "C06: len() is not current");
    assert!(sacc::position(s) == m.pos as u64, "C06: position differs from the byte-vector cursor");
}

macro_rules! cache_hist {
    ($name:ident, $k:expr, $maxbuf:expr) => {
        #[kani::proof]
        #[kani::stub(std::fmt::format, stub_format)]
        #[kani::stub(std::io::copy, stub_io_copy)]
        #[kani::unwind(70)]
        fn $name() {
            let p = small_parts(&[EOC, EOC], 0, L0 as u64, 1, 64);
            let mut model = init_model(&p);
            let file = ArrFile::new(p.data, p.len);
            let m: MiniAllocator<FS> = assemble(file, p.len, p.fat, p.entries, p.mf, p.mfree);
            let arc = Arc::new(RwLock::new(m));
            let mut s = Stream::new(&arc, 1, $maxbuf);
            let mut i = 0;
            while i < $k {
                step(&mut s, &mut model);
                i += 1;
            }
            let r = s.flush();
            assert!(r.is_ok(), "C13: final flush failed without a fault");
            {
                let g = arc.read().unwrap();
                let e = &dacc::dir_entries(macc::directory(&g))[1];
                assert!(e.stream_len == model.len as u64, "C02/C13: after flush the directory entry length differs from the handle's length");
                if model.len > 0 {
                    let q = any_usize_below(model.len);
                    assert!(data_byte(&g.inner().data, 1, q as u64) == model.b[q], "C02/C13: after a successful flush the image does not hold the bytes accepted by write");
                }
                assert!(g.inner().flushes >= 1, "C13: Stream::flush did not flush the underlying file");
            }
            kani::cover!(model.len > L0, "stream grew");
            kani::cover!(model.len < L0, "stream shrank");
            std::mem::forget(s);
            std::mem::forget(arc);
        }
    };
}
cache_hist!(cache_hist2_min, 2, 0);
cache_hist!(cache_hist3_min, 3, 0);
cache_hist!(cache_hist2_b12, 2, 12);
cache_hist!(cache_hist3_b32, 3, 32);
