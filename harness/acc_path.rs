#![allow(dead_code)]
use super::*;
pub(crate) fn real_upper(c: char) -> char { cfb_uppercase_char(c) }
