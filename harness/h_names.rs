// C09 (and C04/C01 for listing order): name comparison and validation
// against an independent statement of the MS-CFB rules.
use super::env::*;
use crate::internal::path::{compare_names, validate_name};
use std::cmp::Ordering;

use super::uptable::{table_upper, SIGMA}; // generated at run time (= real cfb_uppercase_char on SIGMA)

/// Independent upper-casing on the alphabet (from Unicode simple case mapping).
fn spec_upper(c: char) -> char {
    match c {
        'a'..='z' => ((c as u8) - 32) as char,
        '\u{e9}' => '\u{c9}',     // é -> É
        '\u{1f80}' => '\u{1f88}', // exceptional pair listed in uppercase.txt
        _ => c,                   // ß, digits, punctuation, U+1D49C, U+FF21: unchanged
    }
}

fn units(c: char) -> usize {
    if (c as u32) >= 0x10000 { 2 } else { 1 }
}

fn unit_at(c: char, k: usize) -> u16 {
    let v = c as u32;
    if v < 0x10000 {
        v as u16
    } else {
        let w = v - 0x10000;
        if k == 0 { 0xD800 + (w >> 10) as u16 } else { 0xDC00 + (w & 0x3ff) as u16 }
    }
}

/// CFB order: shorter (in UTF-16 units) first, then by upper-cased code units.
fn spec_cmp(a: &[char], b: &[char]) -> Ordering {
    let mut la = 0;
    let mut lb = 0;
    let mut i = 0;
    while i < a.len() { la += units(a[i]); i += 1; }
    i = 0;
    while i < b.len() { lb += units(b[i]); i += 1; }
    if la != lb {
        return la.cmp(&lb);
    }
    // same number of units: compare unit sequences
    let mut ua = [0u16; 8];
    let mut ub = [0u16; 8];
    let mut n = 0;
    i = 0;
    while i < a.len() {
        let c = spec_upper(a[i]);
        let mut k = 0;
        while k < units(c) { ua[n] = unit_at(c, k); n += 1; k += 1; }
        i += 1;
    }
    n = 0;
    i = 0;
    while i < b.len() {
        let c = spec_upper(b[i]);
        let mut k = 0;
        while k < units(c) { ub[n] = unit_at(c, k); n += 1; k += 1; }
        i += 1;
    }
    i = 0;
    while i < n {
        if ua[i] != ub[i] {
            return ua[i].cmp(&ub[i]);
        }
        i += 1;
    }
    Ordering::Equal
}

fn encode(cs: &[char], out: &mut [u8; 16]) -> usize {
    let mut n = 0;
    let mut i = 0;
    while i < cs.len() {
        let l = cs[i].encode_utf8(&mut out[n..]).len();
        n += l;
        i += 1;
    }
    n
}

fn any_ascii_name_char() -> char {
    let b: u8 = kani::any();
    kani::assume(b >= 0x20 && b < 0x7f);
    b as char
}

fn any_sigma_char() -> char {
    let k: u8 = kani::any();
    kani::assume((k as usize) < SIGMA.len());
    SIGMA[k as usize]
}

macro_rules! cmp_ascii {
    ($name:ident, $la:expr, $lb:expr) => {
        #[kani::proof]
        #[kani::stub(std::fmt::format, stub_format)]
        #[kani::stub(crate::internal::path::cfb_uppercase_char, table_upper)]
        #[kani::unwind(10)]
        fn $name() {
            let mut a = ['x'; $la];
            let mut b = ['x'; $lb];
            let mut ba = [0u8; 16];
            let mut bb = [0u8; 16];
            let mut i = 0;
            while i < $la {
                let c: u8 = kani::any();
                kani::assume(c >= 0x20 && c < 0x7f);
                ba[i] = c;
                a[i] = c as char;
                i += 1;
            }
            i = 0;
            while i < $lb {
                let c: u8 = kani::any();
                kani::assume(c >= 0x20 && c < 0x7f);
                bb[i] = c;
                b[i] = c as char;
                i += 1;
            }
            let sa = unsafe { std::str::from_utf8_unchecked(&ba[..$la]) };
            let sb = unsafe { std::str::from_utf8_unchecked(&bb[..$lb]) };
            let got = compare_names(sa, sb);
            let want = spec_cmp(&a, &b);
            assert!(got == want, "C09/C04/C01: compare_names differs from CFB order (shorter first, then upper-cased units)");
            kani::cover!($la != $lb || want == Ordering::Equal, "equal up to case (same length) / end");
            kani::cover!($la != $lb || want == Ordering::Less, "less (same length) / end");
        }
    };
}
cmp_ascii!(c09_cmp_ascii_2_2, 2, 2);
cmp_ascii!(c09_cmp_ascii_3_3, 3, 3);
cmp_ascii!(c09_cmp_ascii_1_2, 1, 2);
cmp_ascii!(c09_cmp_ascii_3_2, 3, 2);

macro_rules! cmp_sigma {
    ($name:ident, $la:expr, $lb:expr) => {
        #[kani::proof]
        #[kani::stub(std::fmt::format, stub_format)]
        #[kani::stub(crate::internal::path::cfb_uppercase_char, table_upper)]
        #[kani::unwind(10)]
        fn $name() {
            let mut a = ['x'; $la];
            let mut b = ['x'; $lb];
            let mut i = 0;
            while i < $la { a[i] = any_sigma_char(); i += 1; }
            i = 0;
            while i < $lb { b[i] = any_sigma_char(); i += 1; }
            let mut ba = [0u8; 16];
            let mut bb = [0u8; 16];
            let na = encode(&a, &mut ba);
            let nb = encode(&b, &mut bb);
            let sa = unsafe { std::str::from_utf8_unchecked(&ba[..na]) };
            let sb = unsafe { std::str::from_utf8_unchecked(&bb[..nb]) };
            let got = compare_names(sa, sb);
            let want = spec_cmp(&a, &b);
            assert!(got == want, "C09/C04/C01: compare_names differs from CFB order on a name with non-ASCII characters");
            kani::cover!(!sa.is_ascii() && sb.is_ascii(), "mixed ascii / non-ascii pair (general path)");
            kani::cover!(!sa.is_ascii() && want == Ordering::Greater, "general path, greater");
        }
    };
}
cmp_sigma!(c09_cmp_sigma_2_2, 2, 2);
cmp_sigma!(c09_cmp_sigma_1_2, 1, 2);
cmp_sigma!(c09_cmp_sigma_2_1, 2, 1);
