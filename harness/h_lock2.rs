// C14, try-lock variant: the instrumented lock lets try_read / try_write fail
// at any time (another thread may hold or wait for the lock).  One read-only
// call suffices to expose code that unwraps such a result; with the eight
// calls of c14_lookups every failing try-lock forks the run and the query
// outgrows memory when the crate really uses try-locks.
use super::env::*;
use super::h_api::*;
use super::h_stor::*;
use super::util::*;

#[kani::proof]
#[kani::stub(std::fmt::format, stub_format)]
#[kani::stub(std::ffi::OsStr::to_str, stub_osstr_to_str)]
#[kani::stub(crate::internal::path::cfb_uppercase_char, super::uptable::table_upper)]
#[kani::unwind(140)]
fn c14_one_lookup() {
    let mut p = small_parts(&[1, EOC, EOC], 0, 100, 2, 64);
    let c = mk_comp(&mut p);
    assert!(c.exists("/d"), "C14/C01: exists() on an existing storage");
    assert!(super::lockty::live_guards(&c.minialloc) == 0, "C14: a lock guard is still held after the call returned");
    kani::cover!(true, "end");
    std::mem::forget(c);
}
