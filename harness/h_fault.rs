// C12 / C13: faults of the underlying file as solver variables.  The real
// storage layers run over FaultyFile; each read/write/seek of a chosen phase
// may fail (budget 1).  Scenarios have concrete control and symbolic data.
use super::env::*;
use super::h_alloc::{NA, NS};
use super::h_stor::*;
use super::util::*;
use crate::internal::alloc::vacc as aacc;
use crate::internal::sector::vacc as secacc;
use crate::internal::{Sectors, Version};
use std::io::{Read, Seek, SeekFrom, Write};

/// Backend in which exactly the `at`-th call among the enabled kinds
/// (read / write / seek / flush) fails once the harness has armed it.  `at` is
/// concrete per harness instance (the position k of the property's quantifier is
/// enumerated by instances); everything else is symbolic data.
pub struct FaultAt<T> {
    pub f: T,
    pub armed: bool,
    pub at: usize,
    pub calls: usize,
    pub injected: u32,
    pub fail_reads: bool,
    pub fail_writes: bool,
    pub fail_seeks: bool,
    pub fail_flush: bool,
}
impl<T> FaultAt<T> {
    fn fault(&mut self, enabled: bool) -> bool {
        if !self.armed || !enabled {
            return false;
        }
        let c = self.calls;
        self.calls += 1;
        if c == self.at {
            self.injected += 1;
            return true;
        }
        false
    }
}
impl<T: Read> Read for FaultAt<T> {
    fn read(&mut self, buf: &mut [u8]) -> std::io::Result<usize> {
        if self.fault(self.fail_reads) {
            return Err(std::io::Error::from(std::io::ErrorKind::Other));
        }
        self.f.read(buf)
    }
}
impl<T: Write> Write for FaultAt<T> {
    fn write(&mut self, buf: &[u8]) -> std::io::Result<usize> {
        if self.fault(self.fail_writes) {
            return Err(std::io::Error::from(std::io::ErrorKind::Other));
        }
        self.f.write(buf)
    }
    fn flush(&mut self) -> std::io::Result<()> {
        if self.fault(self.fail_flush) {
            return Err(std::io::Error::from(std::io::ErrorKind::Other));
        }
        self.f.flush()
    }
}
impl<T: Seek> Seek for FaultAt<T> {
    fn seek(&mut self, pos: SeekFrom) -> std::io::Result<u64> {
        if self.fault(self.fail_seeks) {
            return Err(std::io::Error::from(std::io::ErrorKind::Other));
        }
        self.f.seek(pos)
    }
}

pub const NFI: usize = 3072; // header + 5 sectors: the fault scenarios allocate nothing

/// Result without io::Error's drop glue (see h_cache.rs::split).
fn okv<T>(r: std::io::Result<T>) -> Option<T> {
    match r {
        Ok(v) => Some(v),
        Err(e) => {
            std::mem::forget(e);
            None
        }
    }
}

// C13: a fault while freeing a chain is reported; the allocator's tables stay
// usable (no sector is on the free list twice, every listed sector is FREE),
// a retry does not panic.
pub type FFA = FaultAt<ArrFile<NA>>;
macro_rules! c13_free_fault {
    ($name:ident, $at:expr) => {
#[kani::proof]
#[kani::stub(std::fmt::format, stub_format)]
#[kani::unwind(140)]
fn $name() {
    let pre = [FATSECT, 3, EOC, 2];
    let data = super::h_alloc::image_for(&pre, 0);
    let len = SEC * (1 + NS);
    let file = FaultAt { f: ArrFile::new(data, len), armed: true, at: $at, calls: 0, injected: 0, fail_reads: false, fail_writes: true, fail_seeks: true, fail_flush: false };
    let sectors = Sectors::new(Version::V3, len as u64, file);
    let mut fv = Vec::with_capacity(NS + 2);
    let mut i = 0;
    while i < NS { fv.push(pre[i]); i += 1; }
    let mut a = aacc::mk(sectors, Vec::new(), vec![0u32], fv, Vec::with_capacity(NS + 2));
    let r1 = okv(a.free_chain(1));
    let inj = secacc::inner_mut(aacc::sectors_mut(&mut a)).injected;
    if inj == 1 {
        assert!(r1.is_none(), "C13: a write failure while freeing a chain was swallowed");
    }
    secacc::inner_mut(aacc::sectors_mut(&mut a)).armed = false;
    let _ = okv(a.free_chain(1)); // may fail (the chain is partly freed), must not panic
    let fat = aacc::fat(&a);
    let fl = aacc::free_sectors(&a);
    let mut ok = true;
    let mut x = 0;
    while x < fl.len() {
        ok &= (fl[x] as usize) < fat.len() && fat[fl[x] as usize] == FREE;
        let mut y = x + 1;
        while y < fl.len() { ok &= fl[x] != fl[y]; y += 1; }
        x += 1;
    }
    assert!(ok, "C13: after a failed and retried free the free list names a sector twice or a sector that is not FREE (it would be handed to two chains)");
    kani::cover!(inj == 1, "a fault was injected");
    std::mem::forget(a);
}
    };
}
c13_free_fault!(c13_free_fault_at0, 0);
c13_free_fault!(c13_free_fault_at1, 1);
c13_free_fault!(c13_free_fault_at2, 2);
c13_free_fault!(c13_free_fault_at3, 3);
c13_free_fault!(c13_free_fault_at4, 4);
c13_free_fault!(c13_free_fault_at5, 5);
