// C12 / C13: faults of the underlying file as solver variables.  The real
// storage layers run over FaultyFile; each read/write/seek of a chosen phase
// may fail (budget 1).  Scenarios have concrete control and symbolic data.
use super::env::*;
use super::h_alloc::{NA, NS};
use super::h_stor::*;
use super::util::*;
use super::lockty::RwLock;
use crate::internal::alloc::vacc as aacc;
use crate::internal::directory::vacc as dacc;
use crate::internal::minialloc::vacc as macc;
use crate::internal::sector::vacc as secacc;
use crate::internal::stream::vacc as sacc;
use crate::internal::{MiniAllocator, Sectors, Stream, Version};
use std::io::{Read, Seek, SeekFrom, Write};
use std::sync::Arc;

/// Backend in which exactly the `at`-th call among the enabled kinds
/// (read / write / seek / flush) fails once the harness has armed it.  `at` is
/// concrete per harness instance (the position k of the property's quantifier is
/// enumerated by instances); everything else is symbolic data.
pub struct FaultAt<T> {
    pub f: T,
    pub armed: bool,
    pub at: usize,
    pub calls: usize,
    pub injected: u32,
    pub fail_reads: bool,
    pub fail_writes: bool,
    pub fail_seeks: bool,
    pub fail_flush: bool,
}
impl<T> FaultAt<T> {
    fn fault(&mut self, enabled: bool) -> bool {
        if !self.armed || !enabled {
            return false;
        }
        let c = self.calls;
        self.calls += 1;
        if c == self.at {
            self.injected += 1;
            return true;
        }
        false
    }
}
impl<T: Read> Read for FaultAt<T> {
    fn read(&mut self, buf: &mut [u8]) -> std::io::Result<usize> {
        if self.fault(self.fail_reads) {
            return Err(std::io::Error::from(std::io::ErrorKind::Other));
        }
        self.f.read(buf)
    }
}
impl<T: Write> Write for FaultAt<T> {
    fn write(&mut self, buf: &[u8]) -> std::io::Result<usize> {
        if self.fault(self.fail_writes) {
            return Err(std::io::Error::from(std::io::ErrorKind::Other));
        }
        self.f.write(buf)
    }
    fn flush(&mut self) -> std::io::Result<()> {
        if self.fault(self.fail_flush) {
            return Err(std::io::Error::from(std::io::ErrorKind::Other));
        }
        self.f.flush()
    }
}
impl<T: Seek> Seek for FaultAt<T> {
    fn seek(&mut self, pos: SeekFrom) -> std::io::Result<u64> {
        if self.fault(self.fail_seeks) {
            return Err(std::io::Error::from(std::io::ErrorKind::Other));
        }
        self.f.seek(pos)
    }
}

pub const NFI: usize = 3072; // header + 5 sectors: the fault scenarios allocate nothing
pub type FF = FaultAt<PtrFile<NFI>>;

/// Result without io::Error's drop glue (see h_cache.rs::split).
fn okv<T>(r: std::io::Result<T>) -> Option<T> {
    match r {
        Ok(v) => Some(v),
        Err(e) => {
            std::mem::forget(e);
            None
        }
    }
}

/// `img` must stay where it is (the file points into it).  A 3 KB copy of the
/// image keeps symbolic-offset accesses (every access after an injected error is
/// symbolic to CBMC, see DESIGN.md) at a 3072-way instead of a 7680-way split.
fn mk_faulty(p: &mut Parts, img: &mut [u8; NFI]) -> MiniAllocator<FF> {
    img[..SEC * (1 + NSA)].copy_from_slice(&p.data[..SEC * (1 + NSA)]);
    let file = FaultAt { f: PtrFile::over(img, p.len), armed: false, at: 0, calls: 0, injected: 0, fail_reads: false, fail_writes: false, fail_seeks: false, fail_flush: false };
    assemble(file, p.len, std::mem::take(&mut p.fat), std::mem::take(&mut p.entries), std::mem::take(&mut p.mf), std::mem::take(&mut p.mfree))
}

fn file_of(m: &mut MiniAllocator<FF>) -> &mut FF {
    secacc::inner_mut(aacc::sectors_mut(dacc::allocator_mut(macc::directory_mut(m))))
}

fn arm(arc: &Arc<RwLock<MiniAllocator<FF>>>, reads: bool, writes: bool, seeks: bool, flush: bool, at: Option<usize>) {
    let mut g = arc.write().unwrap();
    let f = file_of(&mut g);
    f.armed = at.is_some();
    f.at = at.unwrap_or(0);
    f.calls = 0;
    f.fail_reads = reads;
    f.fail_writes = writes;
    f.fail_seeks = seeks;
    f.fail_flush = flush;
}

fn injected(arc: &Arc<RwLock<MiniAllocator<FF>>>) -> u32 {
    let mut g = arc.write().unwrap();
    file_of(&mut g).injected
}

// C12: a failed read (or seek) during a buffer refill never turns into wrong
// data on retry; position is unchanged by the failed call.  (variant buf8:
// 8-byte window, so the second read needs a refill.)
macro_rules! c12_read_fault {
    ($name:ident, $at:expr) => {
#[kani::proof]
#[kani::stub(std::fmt::format, stub_format)]
#[kani::stub(crate::internal::stream::Stream::minialloc, sacc::stub_upgrade)]
#[kani::unwind(40)]
fn $name() {
    let mut p = small_parts(&[1, EOC, EOC], 0, 100, 2, 64);
    let mut content = [0u8; 100];
    content.copy_from_slice(&p.data[soff(3)..soff(3) + 100]);
    let mut i;
    let mut img = [0u8; NFI];
    let arc = Arc::new(RwLock::new(mk_faulty(&mut p, &mut img)));
    let mut s = Stream::new(&arc, 1, 0);
    let mut b = [0u8; 8];
    let r = okv(s.read(&mut b));
    assert!(r == Some(8), "C06: first read");
    let mut ok = true;
    i = 0;
    while i < 8 { ok &= b[i] == content[i]; i += 1; }
    assert!(ok, "C06: first window");
    arm(&arc, true, false, true, false, Some($at));
    let mut b2 = [0u8; 8];
    let r1 = okv(s.read(&mut b2));
    arm(&arc, false, false, false, false, None);
    let pos = sacc::position(&s);
    match r1 {
        Some(n) => {
            assert!(n > 0 && n <= 8 && pos == 8 + n as u64, "C12: read result/position");
            ok = true;
            i = 0;
            while i < n { ok &= b2[i] == content[8 + i]; i += 1; }
            assert!(ok, "C12: a read that returned Ok under fault injection returned wrong bytes");
        }
        None => {
            assert!(pos == 8, "C12: failed read moved the position");
            let r2 = okv(s.read(&mut b2));
            assert!(r2.is_some(), "C12: retry after a transient fault failed");
            let n = r2.unwrap();
            assert!(n > 0 && n <= 8, "C12: retry returned nothing");
            ok = true;
            i = 0;
            while i < n { ok &= b2[i] == content[8 + i]; i += 1; }
            assert!(ok, "C12: retry after a failed read returned wrong bytes (stale window)");
        }
    }
    kani::cover!(injected(&arc) == 1 || $at >= 4, "a fault was injected (or the refill needs fewer calls)");
    std::mem::forget(s);
    std::mem::forget(arc);
}
    };
}
c12_read_fault!(c12_read_fault_at0, 0);
c12_read_fault!(c12_read_fault_at1, 1);
c12_read_fault!(c12_read_fault_at2, 2);
c12_read_fault!(c12_read_fault_at3, 3);
c12_read_fault!(c12_read_fault_at5, 5);

// C13: a failed write-back is reported; a later flush that returns Ok means
// the bytes are stored (also after an earlier failed flush).
macro_rules! c13_flush_fault {
    ($name:ident, $at:expr) => {
#[kani::proof]
#[kani::stub(std::fmt::format, stub_format)]
#[kani::stub(std::io::copy, stub_io_copy)]
#[kani::stub(crate::internal::stream::Stream::minialloc, sacc::stub_upgrade)]
#[kani::unwind(40)]
fn $name() {
    let mut p = small_parts(&[1, EOC, EOC], 0, 100, 2, 64);
    let mut img = [0u8; NFI];
    let arc = Arc::new(RwLock::new(mk_faulty(&mut p, &mut img)));
    let mut s = Stream::new(&arc, 1, 0);
    assert!(s.seek(SeekFrom::Start(60)).is_ok());
    let w: [u8; 6] = kani::any();
    let r = okv(s.write(&w));
    assert!(r == Some(6), "C06: buffered write");
    arm(&arc, false, true, true, true, Some($at));
    let r1 = okv(s.flush());
    let inj = injected(&arc);
    arm(&arc, false, false, false, false, None);
    if inj == 1 {
        assert!(r1.is_none(), "C13: a write/seek/flush failure of the underlying file during flush was swallowed");
    }
    let r2 = okv(s.flush());
    assert!(r2.is_some() || r1.is_none(), "C13: flush failed although no fault is injected any more and the first flush succeeded");
    if r2.is_some() {
        // fresh handle reads the bytes back
        let mut t = Stream::new(&arc, 1, 0);
        assert!(t.seek(SeekFrom::Start(60)).is_ok());
        let mut back = [0u8; 6];
        let mut got = 0;
        while got < 6 {
            let r = okv(t.read(&mut back[got..]));
            assert!(r.is_some(), "C13: reading back failed");
            let n = r.unwrap();
            assert!(n > 0, "C13: stream shorter than the bytes written");
            got += n;
        }
        let mut ok = true;
        let mut i = 0;
        while i < 6 { ok &= back[i] == w[i]; i += 1; }
        assert!(ok, "C13: flush returned Ok but the bytes accepted by write are not in the compound file");
        std::mem::forget(t);
    }
    kani::cover!((inj == 1 && r2.is_some()) || $at >= 8, "failed flush followed by a successful one (or the write-back needs fewer calls)");
    std::mem::forget(s);
    std::mem::forget(arc);
}
    };
}
c13_flush_fault!(c13_flush_fault_at0, 0);
c13_flush_fault!(c13_flush_fault_at1, 1);
c13_flush_fault!(c13_flush_fault_at2, 2);
c13_flush_fault!(c13_flush_fault_at4, 4);
c13_flush_fault!(c13_flush_fault_at7, 7);
c13_flush_fault!(c13_flush_fault_at10, 10);

// C13: a fault while freeing a chain is reported; the allocator's tables stay
// usable (no sector is on the free list twice, every listed sector is FREE),
// a retry does not panic.
pub type FFA = FaultAt<ArrFile<NA>>;
macro_rules! c13_free_fault {
    ($name:ident, $at:expr) => {
#[kani::proof]
#[kani::stub(std::fmt::format, stub_format)]
#[kani::unwind(140)]
fn $name() {
    let pre = [FATSECT, 3, EOC, 2];
    let data = super::h_alloc::image_for(&pre, 0);
    let len = SEC * (1 + NS);
    let file = FaultAt { f: ArrFile::new(data, len), armed: true, at: $at, calls: 0, injected: 0, fail_reads: false, fail_writes: true, fail_seeks: true, fail_flush: false };
    let sectors = Sectors::new(Version::V3, len as u64, file);
    let mut fv = Vec::with_capacity(NS + 2);
    let mut i = 0;
    while i < NS { fv.push(pre[i]); i += 1; }
    let mut a = aacc::mk(sectors, Vec::new(), vec![0u32], fv, Vec::with_capacity(NS + 2));
    let r1 = okv(a.free_chain(1));
    let inj = secacc::inner_mut(aacc::sectors_mut(&mut a)).injected;
    if inj == 1 {
        assert!(r1.is_none(), "C13: a write failure while freeing a chain was swallowed");
    }
    secacc::inner_mut(aacc::sectors_mut(&mut a)).armed = false;
    let _ = okv(a.free_chain(1)); // may fail (the chain is partly freed), must not panic
    let fat = aacc::fat(&a);
    let fl = aacc::free_sectors(&a);
    let mut ok = true;
    let mut x = 0;
    while x < fl.len() {
        ok &= (fl[x] as usize) < fat.len() && fat[fl[x] as usize] == FREE;
        let mut y = x + 1;
        while y < fl.len() { ok &= fl[x] != fl[y]; y += 1; }
        x += 1;
    }
    assert!(ok, "C13: after a failed and retried free the free list names a sector twice or a sector that is not FREE (it would be handed to two chains)");
    kani::cover!(inj == 1, "a fault was injected");
    std::mem::forget(a);
}
    };
}
c13_free_fault!(c13_free_fault_at0, 0);
c13_free_fault!(c13_free_fault_at1, 1);
c13_free_fault!(c13_free_fault_at2, 2);
c13_free_fault!(c13_free_fault_at3, 3);
c13_free_fault!(c13_free_fault_at5, 5);
