// Public API entry points (lib.rs) on a CompoundFile built around a small
// concrete layout: root { s: stream(100 B, mini), o: stream(64 B), d: empty
// storage }.  Paths are concrete per call; metadata and contents symbolic.
// C09 (invalid names rejected), C10 (refused calls have no effect), C01 (error
// kinds as the abstract model says), C17 (setters).
use super::env::*;
use super::h_dirent::*;
use super::h_stor::*;
use super::util::*;
use crate::internal::alloc::vacc as aacc;
use crate::internal::directory::vacc as dacc;
use crate::internal::minialloc::vacc as macc;
use crate::internal::timestamp::vacc as tacc;
use crate::internal::{MiniAllocator, ObjType};
use crate::CompoundFile;
use std::io::ErrorKind;
use super::lockty::RwLock;
use std::sync::Arc;
use uuid::Uuid;

/// `p` must stay where it is (the file points into `p.data`).
pub fn mk_comp(p: &mut Parts) -> CompoundFile<PS> {
    let file = PtrFile::over(&mut p.data, p.len);
    let m: MiniAllocator<PS> = assemble(file, p.len, std::mem::take(&mut p.fat), std::mem::take(&mut p.entries), std::mem::take(&mut p.mf), std::mem::take(&mut p.mfree));
    CompoundFile { minialloc: Arc::new(RwLock::new(m)), max_buffer_size: 1024 }
}

pub struct Snap {
    pub data: [u8; NSTOR],
    pub len: usize,
    pub nfat: usize,
    pub nmf: usize,
}

pub fn snap(c: &CompoundFile<PS>) -> Snap {
    let g = c.minialloc.read().unwrap();
    Snap {
        data: *g.inner().d(),
        len: g.inner().len,
        nfat: aacc::fat(dacc::allocator(macc::directory(&g))).len(),
        nmf: macc::minifat(&g).len(),
    }
}

/// C10: image bit-identical, caches identical (lengths + every directory entry).
pub fn unchanged(c: &CompoundFile<PS>, s: &Snap, em: &[EM; 4]) -> bool {
    let g = c.minialloc.read().unwrap();
    let j = any_usize_below(SEC * (1 + NSA));
    let mut ok = g.inner().d()[j] == s.data[j] && g.inner().len == s.len;
    ok &= aacc::fat(dacc::allocator(macc::directory(&g))).len() == s.nfat;
    ok &= macc::minifat(&g).len() == s.nmf;
    let ents = dacc::dir_entries(macc::directory(&g));
    ok &= ents.len() == 4;
    let mut i = 0;
    while i < 4 && ok {
        ok &= same(&ents[i], &em[i]);
        i += 1;
    }
    ok
}

fn kind<T>(r: &std::io::Result<T>) -> Option<ErrorKind> {
    match r {
        Ok(_) => None,
        Err(e) => Some(e.kind()),
    }
}

// C09/C10: names with a forbidden character or longer than 31 units are refused with InvalidInput, nothing changes
#[kani::proof]
#[kani::stub(std::fmt::format, stub_format)]
#[kani::stub(std::ffi::OsStr::to_str, stub_osstr_to_str)]
#[kani::stub(std::io::copy, stub_io_copy)]
#[kani::stub(crate::internal::path::cfb_uppercase_char, super::uptable::table_upper)]
#[kani::stub(crate::internal::timestamp::Timestamp::now, tacc::any_now)]
#[kani::unwind(140)]
fn api_invalid_names() {
    let mut p = small_parts(&[1, EOC, EOC], 0, 100, 2, 64);
    let em = p.em;
    let mut c = mk_comp(&mut p);
    let s0 = snap(&c);
    let r = c.create_stream("/a:b").map(|_| ());
    assert!(kind(&r) == Some(ErrorKind::InvalidInput), "C09: invalid name accepted or wrong error kind (create_stream, ':')");
    let r = c.create_storage("/x!");
    assert!(kind(&r) == Some(ErrorKind::InvalidInput), "C09: invalid name accepted or wrong error kind (create_storage, '!')");
    let r = c.create_new_stream("/d/q\\z").map(|_| ());
    assert!(kind(&r) == Some(ErrorKind::InvalidInput), "C09: invalid name accepted or wrong error kind (create_new_stream, backslash)");
    let r = c.create_storage_all("/n/b:c");
    assert!(kind(&r) == Some(ErrorKind::InvalidInput), "C09: invalid name accepted or wrong error kind (create_storage_all)");
    let r = c.create_storage("/d/xxxxxxxxxxxxxxxxxxxxxxxxxxxxxxxx"); // 32 units
    assert!(kind(&r) == Some(ErrorKind::InvalidInput), "C09: 32-unit name accepted or wrong error kind");
    assert!(unchanged(&c, &s0, &em), "C09/C10: a call refused for an invalid name changed the file or the caches");
    kani::cover!(true, "end");
    std::mem::forget(c);
}

// C10/C01: refused calls (NotFound / AlreadyExists / InvalidInput) have no effect
macro_rules! api_refused {
    ($name:ident, |$c:ident| $e:expr, $kind:expr) => {
        #[kani::proof]
        #[kani::stub(std::fmt::format, stub_format)]
        #[kani::stub(std::ffi::OsStr::to_str, stub_osstr_to_str)]
        #[kani::stub(std::io::copy, stub_io_copy)]
        #[kani::stub(crate::internal::path::cfb_uppercase_char, super::uptable::table_upper)]
        #[kani::stub(crate::internal::timestamp::Timestamp::now, tacc::any_now)]
        #[kani::unwind(140)]
        fn $name() {
            let mut p = small_parts(&[1, EOC, EOC], 0, 100, 2, 64);
            let em = p.em;
            let mut comp = mk_comp(&mut p);
            let s0 = snap(&comp);
            let k = {
                let $c = &mut comp;
                $e
            };
            assert!(k == Some($kind), "C01/C10: refused call returned Ok or the wrong error kind");
            assert!(unchanged(&comp, &s0, &em), "C10: a refused call changed the file or the caches");
            kani::cover!(true, "end");
            std::mem::forget(comp);
        }
    };
}
api_refused!(api_ref_new_stream_exists, |c| kind(&c.create_new_stream("/S").map(|_| ())), ErrorKind::AlreadyExists);
api_refused!(api_ref_storage_on_stream, |c| kind(&c.create_storage("/s")), ErrorKind::AlreadyExists);
api_refused!(api_ref_stream_on_storage, |c| kind(&c.create_stream("/D").map(|_| ())), ErrorKind::AlreadyExists);
api_refused!(api_ref_parent_missing, |c| kind(&c.create_stream("/zz/x").map(|_| ())), ErrorKind::NotFound);
api_refused!(api_ref_parent_is_stream, |c| kind(&c.create_storage("/s/x")), ErrorKind::InvalidInput);
api_refused!(api_ref_remove_storage_on_stream, |c| kind(&c.remove_storage("/s")), ErrorKind::InvalidInput);
api_refused!(api_ref_remove_stream_on_storage, |c| kind(&c.remove_stream("/d/")), ErrorKind::InvalidInput);
api_refused!(api_ref_remove_root, |c| kind(&c.remove_storage("/")), ErrorKind::InvalidInput);
api_refused!(api_ref_remove_missing, |c| kind(&c.remove_stream("/d/zz")), ErrorKind::NotFound);
api_refused!(api_ref_open_storage, |c| kind(&c.open_stream("d").map(|_| ())), ErrorKind::InvalidInput);
api_refused!(api_ref_escape_root, |c| kind(&c.create_storage("/d/../../x")), ErrorKind::InvalidInput);
api_refused!(api_ref_clsid_on_stream, |c| kind(&c.set_storage_clsid("/s", Uuid::from_u128(7))), ErrorKind::InvalidInput);
api_refused!(api_ref_state_missing, |c| kind(&c.set_state_bits("/nope", 3)), ErrorKind::NotFound);

// C17/C02/C07: metadata setters on a storage / on a stream
#[kani::proof]
#[kani::stub(std::fmt::format, stub_format)]
#[kani::stub(std::ffi::OsStr::to_str, stub_osstr_to_str)]
#[kani::stub(crate::internal::path::cfb_uppercase_char, super::uptable::table_upper)]
#[kani::unwind(140)]
fn api_setters() {
    let mut p = small_parts(&[1, EOC, EOC], 0, 100, 2, 64);
    let em = p.em;
    let mut c = mk_comp(&mut p);
    let bits: u32 = kani::any();
    let d1: u32 = kani::any();
    let d4: [u8; 8] = kani::any();
    let id = Uuid::from_fields(d1, 0x1234, 0xabcd, &d4);
    assert!(c.set_state_bits("/D", bits).is_ok(), "C17: set_state_bits on a storage failed");
    assert!(c.set_storage_clsid("d/", id).is_ok(), "C17: set_storage_clsid on a storage failed");
    let sb: u32 = kani::any();
    assert!(c.set_state_bits("/s", sb).is_ok(), "C17: set_state_bits on a stream failed");
    {
        let e = c.entry("/d").unwrap();
        assert!(e.state_bits() == bits && *e.clsid() == id, "C17: state bits / CLSID not returned exactly by entry()");
        assert!(e.is_storage() && e.name() == "d" && e.len() == 0, "C01: entry() of the storage");
        let s = c.entry("/S").unwrap();
        assert!(s.state_bits() == sb && s.clsid().is_nil() && s.is_stream() && s.len() == 100, "C17/C01: entry() of the stream");
    }
    // write-through (C02) and frame (C07): independent decoding of the directory sector
    let g = c.minialloc.read().unwrap();
    let img = g.inner().d();
    let mut want = em;
    want[3].state = bits;
    want[3].d1 = d1; want[3].d2 = 0x1234; want[3].d3 = 0xabcd; want[3].d4 = d4;
    want[1].state = sb;
    let mut ok = true;
    let mut sl = 0;
    while sl < 4 {
        let b = enc(&want[sl]);
        let mut k = 0;
        while k < DIRENT {
            ok &= img[soff(1) + DIRENT * sl + k] == b[k];
            k += 1;
        }
        sl += 1;
    }
    assert!(ok, "C02/C07/C17: directory sector after the setters is not (old entries with exactly the set fields replaced)");
    kani::cover!(true, "end");
    drop(g);
    std::mem::forget(c);
}
