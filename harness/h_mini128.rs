// MiniAllocator at the MiniFAT-sector boundary: the cached MiniFAT holds
// exactly 128 entries (= one v3 MiniFAT sector's worth) while the MiniFAT
// chain already has TWO sectors, because trailing mini sectors were released
// earlier (the cache trims trailing FREE entries, the chain never shrinks).
// Allocating one more mini sector must use the room the chain already has:
// the MiniFAT chain stays at two sectors, the header still says two, the new
// cell is written through into the second MiniFAT sector and the file grows
// only by the one sector the mini stream itself needs.  C02 / C03 / C15.
use super::env::*;
use super::h_dirent::*;
use super::util::*;
use crate::internal::alloc::vacc as aacc;
use crate::internal::directory::vacc as dacc;
use crate::internal::minialloc::vacc as macc;
use crate::internal::{DirEntry, MiniAllocator, Sectors, Version};

pub const N128S: usize = 20; // sectors 0..19: FAT, DIR, MiniFAT x2, mini stream x16
pub const N128: usize = SEC * (1 + N128S + 2);
pub type F128 = ArrFile<N128>;

fn mk128() -> MiniAllocator<F128> {
    let mut data = [0u8; N128];
    let ff = [0xffu8; SEC];
    data[soff(0)..soff(0) + SEC].copy_from_slice(&ff);
    let mut fatv = [EOC; N128S];
    fatv[0] = FATSECT;
    fatv[1] = EOC; // directory
    fatv[2] = 3;   // MiniFAT chain 2 -> 3
    fatv[3] = EOC;
    let mut i = 4;
    while i < N128S { fatv[i] = if i + 1 < N128S { (i + 1) as u32 } else { EOC }; i += 1; } // mini stream 4..19
    i = 0;
    while i < N128S { put32(&mut data, soff(0) + 4 * i, fatv[i]); i += 1; }
    // MiniFAT sector 2: 128 one-sector chains; sector 3: all FREE (released earlier)
    data[soff(2)..soff(2) + SEC].copy_from_slice(&ff);
    data[soff(3)..soff(3) + SEC].copy_from_slice(&ff);
    i = 0;
    while i < 128 { put32(&mut data, soff(2) + 4 * i, EOC); i += 1; }
    let mut root = em_blank();
    root.ty = 5; root.nlen = 10;
    let rn = b"Root Entry";
    let mut k = 0;
    while k < 10 { root.name[k] = rn[k]; k += 1; }
    root.color = 1; root.child = 1; root.start = 4; root.len = (MINI * 128) as u64;
    let mut s1 = em_blank();
    s1.ty = 2; s1.nlen = 1; s1.name[0] = b's'; s1.color = 1; s1.start = 0; s1.len = 64;
    let em = [root, s1, em_blank(), em_blank()];
    let mut entries: Vec<DirEntry> = Vec::with_capacity(5);
    let mut s = 0;
    while s < 4 {
        let b = enc(&em[s]);
        let off = soff(1) + DIRENT * s;
        data[off..off + DIRENT].copy_from_slice(&b);
        entries.push(to_dirent(&em[s]));
        s += 1;
    }
    put32(&mut data, 44, 1); put32(&mut data, 48, 1); put32(&mut data, 60, 2); put32(&mut data, 64, 2); put32(&mut data, 76, 0);
    let len = SEC * (1 + N128S);
    let file = ArrFile::new(data, len);
    let sectors = Sectors::new(Version::V3, len as u64, file);
    let mut fat = Vec::with_capacity(N128S + 3);
    i = 0;
    while i < N128S { fat.push(fatv[i]); i += 1; }
    let alloc = aacc::mk(sectors, Vec::new(), vec![0u32], fat, Vec::with_capacity(4));
    let dir = dacc::mk(alloc, entries, 1);
    let mut mf = Vec::with_capacity(132);
    i = 0;
    while i < 128 { mf.push(EOC); i += 1; }
    macc::mk(dir, mf, 2, Vec::with_capacity(4))
}

#[kani::proof]
#[kani::stub(std::fmt::format, stub_format)]
#[kani::stub(std::io::copy, stub_io_copy)]
#[kani::unwind(140)]
fn mini_begin_at_128() {
    let mut m = mk128();
    let r = m.begin_mini_chain();
    let id = match r {
        Ok(v) => v,
        Err(e) => { std::mem::forget(e); assert!(false, "C01: allocating a mini sector failed on a well-formed state"); 0 }
    };
    assert!(id == 128, "C15/C03: the next mini sector after 128 used ones is number 128");
    let dir = macc::directory(&m);
    let fat = aacc::fat(dacc::allocator(dir));
    let f = m.inner();
    // the MiniFAT chain had room: still 2 -> 3 -> END, header still says two sectors
    assert!(fat[2] == 3 && fat[3] == EOC, "C15/C03: the MiniFAT chain was extended although its second sector had room (trailing free entries are trimmed from the cache, not from the chain)");
    assert!(get32(&f.data, 64) == 2 && get32(&f.data, 60) == 2, "C02/C03: header MiniFAT sector count / first sector differs from the MiniFAT chain");
    // the file grew by exactly the one sector the mini stream needs
    assert!(fat.len() == N128S + 1 && f.len == SEC * (1 + N128S + 1), "C15: allocating one mini sector grew the file by more than the mini stream's one sector");
    assert!(fat[19] == 20 && fat[20] == EOC, "C03: mini stream chain extended by one sector");
    assert!(get32(&f.data, soff(0) + 4 * 19) == 20 && get32(&f.data, soff(0) + 4 * 20) == EOC, "C02: FAT cells of the mini stream's new sector written through");
    // the new MiniFAT cell is written through into the second MiniFAT sector
    let mf = macc::minifat(&m);
    assert!(mf.len() == 129 && mf[128] == EOC, "C03: MiniFAT cache after the allocation");
    assert!(get32(&f.data, soff(3)) == EOC && get32(&f.data, soff(3) + 4) == FREE, "C02: MiniFAT cell 128 not written through to the second MiniFAT sector");
    let root = &dacc::dir_entries(dir)[0];
    assert!(root.stream_len == (MINI * 129) as u64 && root.start_sector == 4, "C03: mini stream length = 64 x MiniFAT length");
    assert!(get64(&f.data, soff(1) + 120) == (MINI * 129) as u64, "C02: root entry's length written through");
    kani::cover!(true, "end");
    std::mem::forget(m);
}
