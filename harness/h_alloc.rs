// Allocator layer (alloc.rs): one step from a well-formed FAT state.
// Shapes (which cells are FREE, how chains are linked) are concrete per
// harness instance; sector contents of free sectors, and in the *_sym
// instances the links, are solver variables.
// Serves C02 (write-through), C03 (FAT well-formedness), C08 (fresh sectors
// are zero), C15 (free sectors are reused), C07 (frame), C05/C11 (next()).
use super::env::*;
use super::util::*;
use crate::internal::alloc::vacc as aacc;
use crate::internal::{Allocator, SectorInit, Sectors, Version};

pub const NS: usize = 4; // sectors in the pre-state (sector 0 = FAT sector)
pub const NA: usize = SEC * (1 + NS + 1); // room for one appended sector
pub type FA = ArrFile<NA>;

/// Image + allocator for the FAT `fat` (cell 0 must be FATSECT).  Sectors
/// whose bit is set in `symmask` get arbitrary (symbolic) contents.
pub fn image_for(fat: &[u32; NS], symmask: u32) -> [u8; NA] {
    let mut data = [0u8; NA];
    let ff = [0xffu8; SEC];
    data[soff(0)..soff(0) + SEC].copy_from_slice(&ff);
    let mut c = 0;
    while c < NS {
        put32(&mut data, soff(0) + 4 * c, fat[c]);
        c += 1;
    }
    let mut s = 1;
    while s < NS {
        if (symmask >> s) & 1 == 1 {
            let fill: [u8; SEC] = kani::any();
            data[soff(s as u32)..soff(s as u32) + SEC].copy_from_slice(&fill);
        }
        s += 1;
    }
    put32(&mut data, 44, 1); // number of FAT sectors
    put32(&mut data, 76, 0); // DIFAT[0] = sector 0
    put32(&mut data, 80, FREE);
    data
}

pub fn mk_alloc_from(fat: &[u32; NS], symmask: u32) -> Allocator<FA> {
    let data = image_for(fat, symmask);
    let mut fv: Vec<u32> = Vec::with_capacity(NS + 2);
    let mut free: Vec<u32> = Vec::with_capacity(NS + 2);
    let mut i = 0;
    while i < NS {
        fv.push(fat[i]);
        if fat[i] == FREE {
            free.push(i as u32);
        }
        i += 1;
    }
    let len = SEC * (1 + NS);
    let file = ArrFile::new(data, len);
    let sectors = Sectors::new(Version::V3, len as u64, file);
    aacc::mk(sectors, Vec::new(), vec![0u32], fv, free)
}

/// Independent well-formedness + coherence check of the FAT after a step.
pub fn check_fat(a: &Allocator<FA>) {
    let fat = aacc::fat(a);
    let n = fat.len();
    let f = a.inner();
    assert!(n <= NS + 1, "C03: FAT cache longer than expected");
    assert!(f.len == SEC * (1 + n), "C03: file length is not header + one sector per FAT entry");
    assert!(get32(&f.data, 44) == aacc::difat(a).len() as u32, "C02/C03: header FAT sector count differs from DIFAT length");
    assert!(fat[0] == FATSECT, "C03: FAT sector not marked in FAT");
    let mut j = 0;
    while j < SEC / 4 {
        let img = get32(&f.data, soff(0) + 4 * j);
        if j < n {
            assert!(img == fat[j], "C02: FAT cache cell differs from image cell");
        } else {
            assert!(img == FREE, "C03: FAT cell beyond the last sector is not FREE");
        }
        j += 1;
    }
    let mut x = 0;
    while x < n {
        if fat[x] <= MAXREG {
            assert!((fat[x] as usize) < n, "C03: FAT cell points outside the file");
            assert!(fat[fat[x] as usize] != FREE, "C03: chain runs into a FREE sector");
            assert!(fat[fat[x] as usize] != FATSECT, "C03: chain runs into a FAT sector");
            let mut y = 0;
            while y < n {
                assert!(x == y || fat[x] != fat[y], "C03: sector pointed to twice");
                y += 1;
            }
        }
        // free list == FREE cells, no duplicates
        let fl = aacc::free_sectors(a);
        let mut k = 0;
        let mut listed = 0;
        while k < fl.len() {
            assert!((fl[k] as usize) < n && fat[fl[k] as usize] == FREE, "C15/C03: free list names a sector that is not FREE");
            if fl[k] as usize == x {
                listed += 1;
            }
            k += 1;
        }
        assert!(fat[x] != FREE || listed == 1, "C15: FREE sector not exactly once in the free list (space would leak or be handed out twice)");
        x += 1;
    }
}

fn chain_of(fat: &[u32; NS], start: u32) -> ([u32; NS], usize) {
    let mut out = [EOC; NS];
    let mut n = 0;
    let mut cur = start;
    while cur != EOC && n < NS {
        out[n] = cur;
        n += 1;
        cur = fat[cur as usize];
    }
    (out, n)
}

// ---------------------------------------------------------------- begin_chain
macro_rules! alloc_begin {
    ($name:ident, $fat:expr, $sym:expr) => {
        #[kani::proof]
        #[kani::stub(std::fmt::format, stub_format)]
        #[kani::stub(std::io::copy, stub_io_copy)]
        #[kani::unwind(130)]
        fn $name() {
            let pre: [u32; NS] = $fat;
            let mut a = mk_alloc_from(&pre, $sym);
            let nfree = aacc::free_sectors(&a).len();
            let r = a.begin_chain(SectorInit::Zero);
            assert!(r.is_ok(), "C01/C03: allocation failed on a well-formed state");
            let id = r.unwrap();
            let fat = aacc::fat(&a);
            assert!((id as usize) < fat.len() && id != 0, "C03: allocated id out of range");
            assert!(fat[id as usize] == EOC, "C03: fresh chain not terminated");
            if nfree > 0 {
                assert!((id as usize) < NS && pre[id as usize] == FREE, "C15: free sector not reused");
                assert!(fat.len() == NS, "C15: file grew although a free sector existed");
            } else {
                assert!(id as usize == NS && fat.len() == NS + 1, "C03: new sector not appended at the end");
            }
            let b = any_usize_below(SEC);
            assert!(a.inner().data[soff(id) + b] == 0, "C08: freshly allocated sector is not zeroed");
            let mut j = 0;
            while j < NS {
                assert!(j == id as usize || fat[j] == pre[j], "C07/C03: unrelated FAT cell changed");
                j += 1;
            }
            check_fat(&a);
            kani::cover!(true, "reached end");
            std::mem::forget(a);
        }
    };
}
alloc_begin!(alloc_begin_nofree, [FATSECT, EOC, 3, EOC], 0);
alloc_begin!(alloc_begin_free2, [FATSECT, 3, FREE, EOC], 0b0100);
alloc_begin!(alloc_begin_free13, [FATSECT, FREE, EOC, FREE], 0b1010);

// --------------------------------------------------------------- extend_chain
macro_rules! alloc_extend {
    ($name:ident, $fat:expr, $sym:expr, $start:expr) => {
        #[kani::proof]
        #[kani::stub(std::fmt::format, stub_format)]
        #[kani::stub(std::io::copy, stub_io_copy)]
        #[kani::unwind(130)]
        fn $name() {
            let pre: [u32; NS] = $fat;
            let mut a = mk_alloc_from(&pre, $sym);
            let nfree = aacc::free_sectors(&a).len();
            let start: u32 = $start;
            let (ch, n) = chain_of(&pre, start);
            let last = ch[n - 1];
            let r = a.extend_chain(start, SectorInit::Zero);
            assert!(r.is_ok(), "C01/C03: extend failed on a well-formed state");
            let id = r.unwrap();
            let fat = aacc::fat(&a);
            assert!(fat[last as usize] == id, "C03: old chain end does not link to the new sector");
            assert!(fat[id as usize] == EOC, "C03: extended chain not terminated");
            if nfree > 0 {
                assert!(fat.len() == NS && pre[id as usize] == FREE, "C15: free sector not reused");
            } else {
                assert!(id as usize == NS, "C03: new sector not appended at the end");
            }
            let mut j = 0;
            while j < NS {
                assert!(j == id as usize || j == last as usize || fat[j] == pre[j], "C07/C03: unrelated FAT cell changed");
                j += 1;
            }
            let b = any_usize_below(SEC);
            assert!(a.inner().data[soff(id) + b] == 0, "C08: freshly allocated sector is not zeroed");
            check_fat(&a);
            kani::cover!(last != start, "start is not the chain end");
            std::mem::forget(a);
        }
    };
}
alloc_extend!(alloc_extend_nofree, [FATSECT, 3, EOC, 2], 0, 1);
alloc_extend!(alloc_extend_free3, [FATSECT, 2, EOC, FREE], 0b1000, 1);

// ------------------------------------------------- free_chain / free_chain_after
macro_rules! alloc_free {
    ($name:ident, $fat:expr, $start:expr, $after:expr) => {
        #[kani::proof]
        #[kani::stub(std::fmt::format, stub_format)]
        #[kani::unwind(130)]
        fn $name() {
            let pre: [u32; NS] = $fat;
            let mut a = mk_alloc_from(&pre, 0b1110);
            let nfree = aacc::free_sectors(&a).len();
            let start: u32 = $start;
            let after: bool = $after;
            let (ch, n) = chain_of(&pre, start);
            let before: [u8; NA] = a.inner().data;
            let r = if after { a.free_chain_after(start) } else { a.free_chain(start) };
            assert!(r.is_ok(), "C01/C03: free failed on a well-formed state");
            let fat = aacc::fat(&a);
            assert!(fat.len() == NS, "C03: FAT length changed by free");
            let mut i = 0;
            while i < n {
                if after && i == 0 {
                    assert!(fat[ch[i] as usize] == EOC, "C03: truncated chain not terminated");
                } else {
                    assert!(fat[ch[i] as usize] == FREE, "C15/C03: sector of a freed chain is not FREE");
                }
                i += 1;
            }
            let expect = nfree + n - if after { 1 } else { 0 };
            assert!(aacc::free_sectors(&a).len() == expect, "C15: free list does not contain exactly the freed sectors");
            let mut j = 0;
            while j < NS {
                let mut inch = false;
                let mut k = 0;
                while k < n { if ch[k] as usize == j { inch = true; } k += 1; }
                assert!(inch || fat[j] == pre[j], "C07/C03: unrelated FAT cell changed");
                j += 1;
            }
            // freeing writes only into the FAT sector (other streams' bytes untouched)
            let b = any_usize_below(NA);
            assert!((b >= soff(0) && b < soff(0) + SEC) || a.inner().data[b] == before[b], "C07: freeing wrote outside the FAT sector");
            check_fat(&a);
            kani::cover!(n >= 2, "chain of two or more sectors");
            std::mem::forget(a);
        }
    };
}
alloc_free!(alloc_free_chain3, [FATSECT, 3, EOC, 2], 1, false);
alloc_free!(alloc_free_after3, [FATSECT, 3, EOC, 2], 1, true);
alloc_free!(alloc_free_other, [FATSECT, EOC, 3, EOC], 2, false);

// ------------------------------------------------------------------ next()
// C05/C11: following any sector id through any FAT never panics.
#[kani::proof]
#[kani::stub(std::fmt::format, stub_format)]
#[kani::unwind(130)]
fn alloc_next_total() {
    let mut pre = [FATSECT, 0, 0, 0];
    pre[1] = kani::any();
    pre[2] = kani::any();
    pre[3] = kani::any();
    let a = mk_alloc_from(&pre, 0);
    let id: u32 = kani::any();
    let r = a.next(id);
    let was_ok = r.is_ok();
    match r {
        Ok(v) => {
            assert!((id as usize) < NS, "C05: next() accepted an id outside the FAT");
            assert!(v == EOC || (v as usize) < NS, "C05: next() returned an id outside the FAT");
            assert!(v == pre[id as usize], "C04: next() does not follow the FAT");
        }
        Err(e) => {
            assert!(e.kind() == std::io::ErrorKind::InvalidData, "C05: wrong error kind");
            assert!((id as usize) >= NS || (pre[id as usize] != EOC && pre[id as usize] as usize >= NS), "C04: next() refused a valid link");
        }
    }
    kani::cover!(id as usize == NS, "id == fat.len()");
    kani::cover!(was_ok, "ok");
    std::mem::forget(a);
}
