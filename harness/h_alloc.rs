// Allocator layer (alloc.rs): one step from an arbitrary well-formed FAT
// state (concrete shape = which cells are FREE; links symbolic).
// Serves C02 (write-through), C03 (FAT well-formedness), C08 (fresh sectors
// are zero), C15 (free sectors are reused), C07 (frame).
use super::env::*;
use super::util::*;
use crate::internal::alloc::vacc as aacc;
use crate::internal::{Allocator, SectorInit, Sectors, Version};

pub const NS: usize = 4; // sectors in the pre-state (sector 0 = FAT sector)
pub const NA: usize = SEC * (1 + NS + 1); // room for one appended sector
pub type FA = ArrFile<NA>;

pub struct Pre {
    pub fat: [u32; NS],
    pub nfree: usize,
}

/// Arbitrary well-formed allocator state over NS sectors.
pub fn mk_alloc(freemask: u32) -> (Allocator<FA>, Pre) {
    let mut data: [u8; NA] = kani::any();
    let mut fat: Vec<u32> = Vec::with_capacity(NS + 2);
    let mut free: Vec<u32> = Vec::with_capacity(NS + 2);
    let mut pre = Pre { fat: [FREE; NS], nfree: 0 };
    fat.push(FATSECT);
    pre.fat[0] = FATSECT;
    let mut i = 1;
    while i < NS {
        if (freemask >> i) & 1 == 1 {
            fat.push(FREE);
            free.push(i as u32);
            pre.nfree += 1;
        } else {
            let v: u32 = kani::any();
            kani::assume(v == EOC || (v >= 1 && (v as usize) < NS && v as usize != i));
            if v != EOC {
                // may not point at a free cell (shape is concrete)
                kani::assume((freemask >> v) & 1 == 0);
            }
            fat.push(v);
            pre.fat[i] = v;
        }
        i += 1;
    }
    // injective on regular values
    let mut a = 1;
    while a < NS {
        let mut b = a + 1;
        while b < NS {
            kani::assume(pre.fat[a] > MAXREG || pre.fat[a] != pre.fat[b]);
            b += 1;
        }
        a += 1;
    }
    // image: FAT sector = sector 0, cells beyond NS are FREE, header fields
    let mut c = 0;
    while c < SEC / 4 {
        let v = if c < NS { pre.fat[c] } else { FREE };
        put32(&mut data, soff(0) + 4 * c, v);
        c += 1;
    }
    put32(&mut data, 44, 1); // number of FAT sectors
    put32(&mut data, 76, 0); // DIFAT[0] = sector 0
    put32(&mut data, 80, FREE);
    let len = SEC * (1 + NS);
    let file = ArrFile::new(data, len);
    let sectors = Sectors::new(Version::V3, len as u64, file);
    (aacc::mk(sectors, Vec::new(), vec![0u32], fat, free), pre)
}

fn file(a: &Allocator<FA>) -> &FA {
    a.inner()
}

/// Independent well-formedness + coherence check of the FAT after a step.
pub fn check_fat(a: &Allocator<FA>) {
    let fat = aacc::fat(a);
    let n = fat.len();
    let f = file(a);
    assert!(n <= NS + 1, "C03: FAT cache longer than expected");
    assert!(f.len == SEC * (1 + n), "C03: file length is not header + one sector per FAT entry");
    assert!(f.len % SEC == 0, "C03: file length not a whole number of sectors");
    assert!(get32(&f.data, 44) == aacc::difat(a).len() as u32, "C02/C03: header FAT sector count differs from DIFAT length");
    assert!(fat[0] == FATSECT, "C03: FAT sector not marked in FAT");
    // C02: every cached cell equals the image cell (one symbolic index)
    let j = any_usize_below(SEC / 4);
    let img = get32(&f.data, soff(0) + 4 * j);
    if j < n {
        assert!(img == fat[j], "C02: FAT cache cell differs from image cell");
    } else {
        assert!(img == FREE, "C03: FAT cell beyond the last sector is not FREE");
    }
    // C03: regular values in range, injective, never the FAT sector
    let x = any_usize_below(n);
    let y = any_usize_below(n);
    if fat[x] <= MAXREG {
        assert!((fat[x] as usize) < n, "C03: FAT cell points outside the file");
        assert!(fat[fat[x] as usize] != FREE, "C03: chain runs into a FREE sector");
        assert!(fat[fat[x] as usize] != FATSECT, "C03: chain runs into a FAT sector");
        assert!(x == y || fat[x] != fat[y], "C03: sector pointed to twice");
    }
    // free list == FREE cells
    let fl = aacc::free_sectors(a);
    let mut k = 0;
    let mut listed = false;
    while k < fl.len() {
        assert!((fl[k] as usize) < n && fat[fl[k] as usize] == FREE, "C15/C03: free list names a sector that is not FREE");
        if fl[k] as usize == x {
            listed = true;
        }
        k += 1;
    }
    assert!(fat[x] != FREE || listed, "C15: FREE sector missing from the free list (space would not be reused)");
}

fn reach_end(pre: &Pre, start: u32) -> (bool, u32, u32) {
    // (reaches EOC within NS steps, last sector, length)
    let mut cur = start;
    let mut last = start;
    let mut n = 0u32;
    let mut i = 0;
    while i < NS {
        if cur == EOC {
            return (true, last, n);
        }
        last = cur;
        cur = pre.fat[cur as usize];
        n += 1;
        i += 1;
    }
    (cur == EOC, last, n)
}

fn any_init() -> SectorInit {
    let k: u8 = kani::any();
    match k % 2 {
        0 => SectorInit::Zero,
        _ => SectorInit::Zero,
    }
}

macro_rules! alloc_begin {
    ($name:ident, $mask:expr) => {
        #[kani::proof]
        #[kani::stub(std::fmt::format, stub_format)]
        #[kani::unwind(514)]
        fn $name() {
            let (mut a, pre) = mk_alloc($mask);
            let r = a.begin_chain(SectorInit::Zero);
            assert!(r.is_ok(), "C01/C03: allocation failed on a well-formed state");
            let id = r.unwrap();
            let fat = aacc::fat(&a);
            assert!((id as usize) < fat.len() && id != 0, "C03: allocated id out of range");
            assert!(fat[id as usize] == EOC, "C03: fresh chain not terminated");
            if pre.nfree > 0 {
                assert!((id as usize) < NS && pre.fat[id as usize] == FREE, "C15: free sector not reused");
                assert!(fat.len() == NS, "C15: file grew although a free sector existed");
            } else {
                assert!(id as usize == NS && fat.len() == NS + 1, "C03: new sector not appended at the end");
            }
            // C08: the fresh sector is zero (symbolic byte)
            let b = any_usize_below(SEC);
            assert!(a.inner().data[soff(id) + b] == 0, "C08: freshly allocated sector is not zeroed");
            // frame: other cells unchanged
            let j = any_usize_below(NS);
            assert!(j == id as usize || fat[j] == pre.fat[j], "C07/C03: unrelated FAT cell changed");
            check_fat(&a);
            kani::cover!(pre.nfree > 0, "reuse path");
            kani::cover!(pre.nfree == 0, "append path");
            std::mem::forget(a);
        }
    };
}
alloc_begin!(alloc_begin_nofree, 0b0000);
alloc_begin!(alloc_begin_free2, 0b0100);
alloc_begin!(alloc_begin_free13, 0b1010);

macro_rules! alloc_extend {
    ($name:ident, $mask:expr) => {
        #[kani::proof]
        #[kani::stub(std::fmt::format, stub_format)]
        #[kani::unwind(514)]
        fn $name() {
            let (mut a, pre) = mk_alloc($mask);
            let start = any_below(NS as u32);
            kani::assume(start >= 1 && pre.fat[start as usize] != FREE);
            let (ok, last, _n) = reach_end(&pre, start);
            kani::assume(ok);
            let r = a.extend_chain(start, SectorInit::Zero);
            assert!(r.is_ok(), "C01/C03: extend failed on a well-formed state");
            let id = r.unwrap();
            let fat = aacc::fat(&a);
            assert!(fat[last as usize] == id, "C03: old chain end does not link to the new sector");
            assert!(fat[id as usize] == EOC, "C03: extended chain not terminated");
            if pre.nfree > 0 {
                assert!(fat.len() == NS && pre.fat[id as usize] == FREE, "C15: free sector not reused");
            } else {
                assert!(id as usize == NS, "C03: new sector not appended at the end");
            }
            let j = any_usize_below(NS);
            assert!(j == id as usize || j == last as usize || fat[j] == pre.fat[j], "C07/C03: unrelated FAT cell changed");
            let b = any_usize_below(SEC);
            assert!(a.inner().data[soff(id) + b] == 0, "C08: freshly allocated sector is not zeroed");
            check_fat(&a);
            kani::cover!(last != start, "start is not the chain end");
            std::mem::forget(a);
        }
    };
}
alloc_extend!(alloc_extend_nofree, 0b0000);
alloc_extend!(alloc_extend_free3, 0b1000);

macro_rules! alloc_free {
    ($name:ident, $mask:expr) => {
        #[kani::proof]
        #[kani::stub(std::fmt::format, stub_format)]
        #[kani::unwind(130)]
        fn $name() {
            let (mut a, pre) = mk_alloc($mask);
            let start = any_below(NS as u32);
            kani::assume(start >= 1 && pre.fat[start as usize] != FREE);
            let (ok, _last, n) = reach_end(&pre, start);
            kani::assume(ok);
            let after: bool = kani::any();
            let before: [u8; NA] = a.inner().data;
            let r = if after { a.free_chain_after(start) } else { a.free_chain(start) };
            assert!(r.is_ok(), "C01/C03: free failed on a well-formed state");
            let fat = aacc::fat(&a);
            assert!(fat.len() == NS, "C03: FAT length changed by free");
            // every sector of the walked chain is FREE now (except `start` when after)
            let mut cur = start;
            let mut i = 0;
            while i < NS {
                if cur == EOC {
                    break;
                }
                if after && cur == start {
                    assert!(fat[cur as usize] == EOC, "C03: truncated chain not terminated");
                } else {
                    assert!(fat[cur as usize] == FREE, "C15/C03: sector of a freed chain is not FREE");
                }
                cur = pre.fat[cur as usize];
                i += 1;
            }
            let nfree_now = aacc::free_sectors(&a).len();
            let expect = pre.nfree + n as usize - if after { 1 } else { 0 };
            assert!(nfree_now == expect, "C15: free list does not contain exactly the freed sectors");
            // data sectors are not touched by freeing (only the FAT sector is written)
            let b = any_usize_below(NA);
            assert!(b < soff(0) + SEC || a.inner().data[b] == before[b], "C07: freeing wrote outside the FAT sector");
            check_fat(&a);
            kani::cover!(n >= 2, "chain of two or more sectors");
            std::mem::forget(a);
        }
    };
}
alloc_free!(alloc_free_nofree, 0b0000);
alloc_free!(alloc_free_free1, 0b0010);
