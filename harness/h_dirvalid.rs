// Directory::validate on a 3-entry directory (root + two) whose tree links are ARBITRARY
// (every left / right / child field any u32, colours and the non-root object
// types arbitrary): what `open` relies on to keep lookups and iterators from
// indexing out of range or walking in circles.  C05 (no panic, terminates:
// unwinding assertion), C16 (strict = permissive + "no two adjacent reds"),
// C04 (every valid tree is accepted), and: on every accepted directory the
// lookups terminate and find exactly the entries reachable from the root.
use super::env::*;
use super::h_dirent::*;
use super::util::*;
use crate::internal::alloc::vacc as aacc;
use crate::internal::directory::vacc as dacc;
use crate::internal::{DirEntry, Sectors, Validation, Version};

const N: usize = 3;

fn okf<T>(r: std::io::Result<T>) -> bool {
    match r {
        Ok(v) => { std::mem::forget(v); true }
        Err(e) => { std::mem::forget(e); false }
    }
}

/// The specification of `validate` for this directory, computed without any
/// container: in-range links, every reachable non-root entry has exactly one
/// incoming link from a reachable entry and the root none (= a tree), types,
/// local name order of sibling links (names are a < b < c in slots 1 < 2 < 3),
/// and whether two adjacent reds occur on a sibling edge.
fn spec(em: &[EM; N]) -> (bool, bool, [bool; N]) {
    let mut reach = [false; N];
    reach[0] = true;
    let mut ok = true;
    // reachability: N rounds of propagation (links out of range are errors once their source is reachable)
    let mut round = 0;
    while round < N {
        let mut i = 0;
        while i < N {
            if reach[i] {
                let links = if i == 0 { [NOSTREAM, NOSTREAM, em[0].child] } else { [em[i].left, em[i].right, em[i].child] };
                let mut k = 0;
                while k < 3 {
                    let l = links[k];
                    if l != NOSTREAM {
                        if (l as usize) < N { reach[l as usize] = true; } else { ok = false; }
                    }
                    k += 1;
                }
            }
            i += 1;
        }
        round += 1;
    }
    // in-degree from reachable entries
    let mut indeg = [0u8; N];
    let mut redred = false;
    let mut i = 0;
    while i < N {
        if reach[i] {
            let links = if i == 0 { [NOSTREAM, NOSTREAM, em[0].child] } else { [em[i].left, em[i].right, em[i].child] };
            let mut k = 0;
            while k < 3 {
                let l = links[k];
                if l != NOSTREAM && (l as usize) < N {
                    indeg[l as usize] += 1;
                    if k < 2 {
                        // sibling edge: local order and colours
                        let j = l as usize;
                        if k == 0 && !(j < i) { ok = false; }
                        if k == 1 && !(j > i) { ok = false; }
                        if j == 0 { ok = false; } // the root's name never sorts against a, b, c here: caught by in-degree below as well
                        if em[i].color == 0 && em[j].color == 0 { redred = true; }
                    }
                }
                k += 1;
            }
        }
        i += 1;
    }
    if indeg[0] != 0 { ok = false; }
    i = 1;
    while i < N {
        if reach[i] {
            if indeg[i] != 1 { ok = false; }
            if !(em[i].ty == 1 || em[i].ty == 2) { ok = false; }
        }
        i += 1;
    }
    (ok, redred, reach)
}

#[kani::proof]
#[kani::stub(std::fmt::format, stub_format)]
#[kani::stub(crate::internal::path::cfb_uppercase_char, super::uptable::table_upper)]
#[kani::unwind(12)]
fn dir_validate_total() {
    let mut em = [em_blank(); N];
    em[0].ty = 5; em[0].nlen = 10;
    let rn = b"Root Entry";
    let mut k = 0;
    while k < 10 { em[0].name[k] = rn[k]; k += 1; }
    em[0].color = 1;
    em[0].child = kani::any();
    let names = [b'a', b'b', b'c'];
    let mut i = 1;
    while i < N {
        em[i].nlen = 1; em[i].name[0] = names[i - 1];
        let t: u8 = kani::any();
        kani::assume(t == 0 || t == 1 || t == 2);
        em[i].ty = t;
        let c: bool = kani::any();
        em[i].color = if c { 1 } else { 0 };
        em[i].left = kani::any(); em[i].right = kani::any();
        // a stream entry never has a child (DirEntry::read_from rejects it in both modes)
        em[i].child = if t == 1 { kani::any() } else { NOSTREAM };
        i += 1;
    }
    let mut entries: Vec<DirEntry> = Vec::with_capacity(N);
    i = 0;
    while i < N { entries.push(to_dirent(&em[i])); i += 1; }
    let file = ArrFile::new([0u8; 8], 0);
    let sectors = Sectors::new(Version::V3, 512, file);
    let alloc = aacc::mk(sectors, Vec::new(), Vec::new(), Vec::new(), Vec::new());
    let dir = dacc::mk(alloc, entries, 1);
    let p_ok = okf(dacc::validate(&dir, Validation::Permissive));
    let s_ok = okf(dacc::validate(&dir, Validation::Strict));
    let (want, redred, reach) = spec(&em);
    assert!(p_ok == want, "C05/C04: Directory::validate (permissive) differs from the specification: it must accept exactly the directories whose reachable links are in range, form a tree of storages/streams and are locally ordered");
    assert!(s_ok == (want && !redred), "C16: strict validation must equal permissive validation plus 'no two adjacent red nodes'");
    if p_ok {
        // lookups on an accepted directory terminate (unwinding assertion), do not panic, and never return an unreachable slot
        let ra = dir.stream_id_for_name_chain(&["a"]);
        let rb = dir.stream_id_for_name_chain(&["B"]);
        let mut ok = true;
        if let Some(x) = ra { ok &= x == 1 && reach[1]; }
        if let Some(x) = rb { ok &= x == 2 && reach[2]; }
        assert!(ok, "C05/C04: a lookup on an accepted directory returned a slot that is not the named, reachable entry");
        kani::cover!(ra.is_some() && rb.is_some(), "a full two-entry tree");
    }
    kani::cover!(p_ok && !s_ok, "tolerated: adjacent reds");
    kani::cover!(!p_ok, "rejected");
    kani::cover!(s_ok, "accepted by strict");
    std::mem::forget(dir);
}
