// C18: results do not depend on how the backend splits transfers.  The same
// assertions as in the plain harnesses, over a backend in which ONE chosen
// transfer (the `at`-th read/write call, concrete per instance) is cut short
// (to 1 byte or to n-1 bytes) or refused with `Interrupted`; everything else,
// in particular all data, is symbolic.  (A backend with solver-chosen chunking
// of every call was measured first: the loops of write_all/read_exact then have
// symbolic trip counts and CBMC does not get through symbolic execution.)
use super::env::*;
use super::h_dirent::*;
use super::h_stor::*;
use super::util::*;
use crate::internal::stream::vacc as sacc;
use crate::internal::{DirEntry, MiniAllocator, SectorInit, Sectors, Validation, Version};

pub struct Chunky<T> {
    pub f: T,
    pub at: usize,   // index of the read/write call that is disturbed
    pub mode: u8,    // 0 = Interrupted, 1 = one byte, 2 = n-1 bytes
    pub calls: usize,
    pub hit: bool,
}
impl<T> Chunky<T> {
    pub fn new(f: T, at: usize, mode: u8) -> Self {
        Chunky { f, at, mode, calls: 0, hit: false }
    }
    fn chunk(&mut self, n: usize) -> Option<usize> {
        let c = self.calls;
        self.calls += 1;
        if c != self.at || n <= 1 {
            return Some(n);
        }
        self.hit = true;
        match self.mode {
            0 => None,
            1 => Some(1),
            _ => Some(n - 1),
        }
    }
}
impl<T: std::io::Read> std::io::Read for Chunky<T> {
    fn read(&mut self, buf: &mut [u8]) -> std::io::Result<usize> {
        match self.chunk(buf.len()) {
            None => Err(std::io::Error::from(std::io::ErrorKind::Interrupted)),
            Some(k) => self.f.read(&mut buf[..k]),
        }
    }
}
impl<T: std::io::Write> std::io::Write for Chunky<T> {
    fn write(&mut self, buf: &[u8]) -> std::io::Result<usize> {
        match self.chunk(buf.len()) {
            None => Err(std::io::Error::from(std::io::ErrorKind::Interrupted)),
            Some(k) => self.f.write(&buf[..k]),
        }
    }
    fn flush(&mut self) -> std::io::Result<()> {
        self.f.flush()
    }
}
impl<T: std::io::Seek> std::io::Seek for Chunky<T> {
    fn seek(&mut self, pos: std::io::SeekFrom) -> std::io::Result<u64> {
        self.f.seek(pos)
    }
}

pub type CF = Chunky<ArrFile<NSTOR>>;

// fresh sectors are fully initialised whatever the chunking (Zero / Fat)
macro_rules! chunky_init {
    ($name:ident, $init:expr, $byte:expr, $at:expr, $mode:expr) => {
        #[kani::proof]
        #[kani::stub(std::fmt::format, stub_format)]
        #[kani::stub(std::io::copy, stub_io_copy)]
        #[kani::unwind(140)]
        fn $name() {
            let mut data = [0u8; 2048];
            let stale: [u8; 512] = kani::any(); // previous content of the sector being re-initialised
            data[512..1024].copy_from_slice(&stale);
            let file = Chunky::new(ArrFile::new(data, 1024), $at, $mode);
            let mut sectors = Sectors::new(Version::V3, 1024, file);
            let r = sectors.init_sector(0, $init);
            assert!(r.is_ok(), "C18: init_sector failed under a short write / Interrupted");
            assert!(sectors.num_sectors() == 1, "C03: sector count after init");
            let f = &sectors.inner().f;
            let mut ok = true;
            let mut k = 0;
            while k < 128 {
                ok &= get32(&f.data[..], 512 + 4 * k) == u32::from_le_bytes([$byte, $byte, $byte, $byte]);
                k += 1;
            }
            assert!(ok, "C18/C08: sector not fully initialised when the backend splits or interrupts the write");
            kani::cover!(sectors.inner().hit, "a transfer was split or interrupted");
        }
    };
}
chunky_init!(chunky_init_zero_one, SectorInit::Zero, 0u8, 0, 1);
chunky_init!(chunky_init_zero_short, SectorInit::Zero, 0u8, 0, 2);
chunky_init!(chunky_init_zero_intr, SectorInit::Zero, 0u8, 0, 0);
chunky_init!(chunky_init_fat_one, SectorInit::Fat, 0xffu8, 5, 1);
chunky_init!(chunky_init_fat_intr, SectorInit::Fat, 0xffu8, 0, 0);

// directory entry codec over a chunky backend
macro_rules! chunky_dirent {
    ($name:ident, $at:expr, $mode:expr) => {
        #[kani::proof]
        #[kani::stub(std::fmt::format, stub_format)]
        #[kani::unwind(140)]
        fn $name() {
            let mut e = em_blank();
            e.ty = 1; e.nlen = 2; e.name[0] = b'a'; e.name[1] = b'b'; e.color = 1;
            e.state = kani::any();
            e.mt = kani::any();
            let d = to_dirent(&e);
            let mut f = Chunky::new(ArrFile::new([0xEEu8; 128], 0), $at, $mode);
            assert!(d.write_to(&mut f).is_ok(), "C18: write_to failed under a short write / Interrupted");
            let want = enc(&e);
            let mut ok = f.f.len == 128;
            let mut k = 0;
            while k < 128 { ok &= f.f.data[k] == want[k]; k += 1; }
            assert!(ok, "C18: directory entry bytes depend on the chunking of writes");
            let hitw = f.hit;
            f.f.pos = 0;
            f.calls = 0;
            f.hit = false;
            let back = DirEntry::read_from(&mut f, Version::V3, Validation::Strict);
            assert!(back.is_ok() && same(&back.unwrap(), &e), "C18: directory entry read depends on the chunking of reads");
            kani::cover!(hitw && f.hit, "a write and a read were split or interrupted");
        }
    };
}
chunky_dirent!(chunky_dirent_one, 40, 1);   // the 41st call writes/reads a multi-byte field (state bits / time)
chunky_dirent!(chunky_dirent_intr, 40, 0);

fn mk_chunky(p: Parts, at: usize, mode: u8) -> MiniAllocator<CF> {
    let file = Chunky::new(ArrFile::new(p.data, p.len), at, mode);
    assemble(file, p.len, p.fat, p.entries, p.mf, p.mfree)
}

// stream storage write + read back across a mini sector boundary over a chunky backend
macro_rules! chunky_stor {
    ($name:ident, $at:expr, $mode:expr) => {
        #[kani::proof]
        #[kani::stub(std::fmt::format, stub_format)]
        #[kani::stub(std::io::copy, stub_io_copy)]
        #[kani::unwind(140)]
        fn $name() {
            let p = small_parts(&[1, EOC, EOC], 0, 100, 2, 64);
            let before = p.data;
            let mut m = mk_chunky(p, $at, $mode);
            let buf: [u8; 10] = kani::any();
            let r = sacc::write_data(&mut m, 1, 60, &buf);
            assert!(r.is_ok(), "C18: write failed under a short write / Interrupted");
            let hitw = m.inner().hit;
            let (now, nlen) = stream_bytes(&m.inner().f.data, 1);
            let mut ok = nlen == 100;
            let mut pz = 0usize;
            while pz < 100 {
                let want = if pz >= 60 && pz < 70 { buf[pz - 60] } else { before[soff(3) + pz] };
                ok &= now[pz] == want;
                pz += 1;
            }
            assert!(ok, "C18: stored bytes depend on the chunking of writes");
            let mut back = [0u8; 12];
            let r = sacc::read_data(&mut m, 1, 58, &mut back);
            assert!(r.is_ok() && r.unwrap() == 12, "C18: read failed or short under short reads / Interrupted");
            ok = true;
            let mut i = 0;
            while i < 12 {
                let q = 58 + i;
                let want = if q >= 60 && q < 70 { buf[q - 60] } else { before[soff(3) + q] };
                ok &= back[i] == want;
                i += 1;
            }
            assert!(ok, "C18: bytes read depend on the chunking of reads");
            kani::cover!(hitw || m.inner().hit, "a transfer was split or interrupted");
            std::mem::forget(m);
        }
    };
}
chunky_stor!(chunky_stor_first_one, 0, 1);
chunky_stor!(chunky_stor_second_short, 1, 2);
chunky_stor!(chunky_stor_first_intr, 0, 0);
