// C18: results do not depend on how the backend splits transfers.  The same
// assertions as in the plain harnesses, over ChunkyFile: every read/write may
// return a solver-chosen short count or Interrupted (budget 2).
use super::env::*;
use super::h_dirent::*;
use super::h_stor::*;
use super::util::*;
use crate::internal::alloc::vacc as aacc;
use crate::internal::directory::vacc as dacc;
use crate::internal::minialloc::vacc as macc;
use crate::internal::stream::vacc as sacc;
use crate::internal::{DirEntry, MiniAllocator, SectorInit, Sectors, Validation, Version};

pub type CF = ChunkyFile<ArrFile<NSTOR>>;

// fresh sectors are fully initialised whatever the chunking (Zero / Fat)
macro_rules! chunky_init {
    ($name:ident, $init:expr, $byte:expr) => {
        #[kani::proof]
        #[kani::stub(std::fmt::format, stub_format)]
        #[kani::stub(std::io::copy, stub_io_copy)]
        #[kani::unwind(140)]
        fn $name() {
            let data: [u8; 2048] = kani::any();
            let file = ChunkyFile { f: ArrFile::new(data, 1024), budget: 2 };
            let mut sectors = Sectors::new(Version::V3, 1024, file);
            let which: bool = kani::any(); // re-initialise sector 0 or append sector 1
            let id = if which { 1 } else { 0 };
            let r = sectors.init_sector(id, $init);
            assert!(r.is_ok(), "C18: init_sector failed under short writes / Interrupted");
            assert!(sectors.num_sectors() == if which { 2 } else { 1 }, "C03: sector count after init");
            let f = &sectors.inner().f;
            assert!(f.len == 512 * (2 + id as usize) || !which, "C18/C03: file length after appending a sector");
            let k = any_usize_below(512);
            assert!(f.data[512 * (1 + id as usize) + k] == $byte, "C18/C08: sector not fully initialised when the backend splits the write");
            kani::cover!(sectors.inner().budget < 2, "a transfer was split or interrupted");
        }
    };
}
chunky_init!(chunky_init_zero, SectorInit::Zero, 0u8);
chunky_init!(chunky_init_fat, SectorInit::Fat, 0xffu8);

// directory entry codec over a chunky backend
#[kani::proof]
#[kani::stub(std::fmt::format, stub_format)]
#[kani::unwind(140)]
fn chunky_dirent_roundtrip() {
    // concrete entry except the state bits and one time: the subject is the chunking
    let mut e = em_blank();
    e.ty = 1; e.nlen = 2; e.name[0] = b'a'; e.name[1] = b'b'; e.color = 1;
    e.state = kani::any();
    e.mt = kani::any();
    let d = to_dirent(&e);
    let mut f = ChunkyFile { f: ArrFile::new([0xEEu8; 128], 0), budget: 2 };
    assert!(d.write_to(&mut f).is_ok(), "C18: write_to failed under short writes / Interrupted");
    let want = enc(&e);
    let k = any_usize_below(128);
    assert!(f.f.data[k] == want[k] && f.f.len == 128, "C18: directory entry bytes depend on the chunking of writes");
    f.f.pos = 0;
    f.budget = 2;
    let back = DirEntry::read_from(&mut f, Version::V3, Validation::Strict);
    assert!(back.is_ok() && same(&back.unwrap(), &e), "C18: directory entry read depends on the chunking of reads");
    kani::cover!(f.budget < 2, "a read was split or interrupted");
}

fn mk_chunky(p: Parts) -> MiniAllocator<CF> {
    let file = ChunkyFile { f: ArrFile::new(p.data, p.len), budget: 2 };
    assemble(file, p.len, p.fat, p.entries, p.mf, p.mfree)
}

// stream storage write + read back across a mini sector boundary over a chunky backend
#[kani::proof]
#[kani::stub(std::fmt::format, stub_format)]
#[kani::stub(std::io::copy, stub_io_copy)]
#[kani::unwind(140)]
fn chunky_stor_write_read() {
    let p = small_parts(&[1, EOC, EOC], 0, 100, 2, 64);
    let before = p.data;
    let mut m = mk_chunky(p);
    let buf: [u8; 10] = kani::any();
    let r = sacc::write_data(&mut m, 1, 60, &buf);
    assert!(r.is_ok(), "C18: write failed under short writes / Interrupted");
    let mut ok = true;
    let mut pz = 0u64;
    while pz < 100 {
        let got = data_byte(&m.inner().f.data, 1, pz);
        let want = if pz >= 60 && pz < 70 { buf[(pz - 60) as usize] } else { before[soff(3) + pz as usize] };
        ok &= got == want;
        pz += 1;
    }
    assert!(ok, "C18: stored bytes depend on the chunking of writes");
    let mut back = [0u8; 12];
    let r = sacc::read_data(&mut m, 1, 58, &mut back);
    assert!(r.is_ok() && r.unwrap() == 12, "C18: read failed or short under short reads / Interrupted");
    ok = true;
    let mut i = 0;
    while i < 12 {
        let q = 58 + i;
        let want = if q >= 60 && q < 70 { buf[q - 60] } else { before[soff(3) + q] };
        ok &= back[i] == want;
        i += 1;
    }
    assert!(ok, "C18: bytes read depend on the chunking of reads");
    kani::cover!(m.inner().budget < 2, "a transfer was split or interrupted");
    std::mem::forget(m);
}
