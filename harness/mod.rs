// Root of the harness tree: `crate::internal::verif` (cfg(kani) only).
#![allow(dead_code, unused_imports)]
pub(crate) mod env;
pub(crate) mod vecset;
mod h_seek;
include!("mods.rs");
