// C13 / C02 / C17: a fault of the underlying file in the middle of a directory
// entry update (the last step of every write-back, of set_len and of every
// metadata setter).  The k-th seek/write of the backend fails: the error must
// surface; when the same update is then retried without a fault and reports
// Ok, the entry IN THE FILE (own little-endian decoder) must be the entry in
// memory - an "Ok" that leaves the file behind would make a successful
// flush / setter a lie after reopening.
use super::env::*;
use super::h_dirent::*;
use super::h_fault::FaultAt;
use super::h_stor::*;
use super::util::*;
use crate::internal::alloc::vacc as aacc;
use crate::internal::directory::vacc as dacc;
use crate::internal::minialloc::vacc as macc;
use crate::internal::sector::vacc as secacc;

fn okv<T>(r: std::io::Result<T>) -> Option<T> {
    match r {
        Ok(v) => Some(v),
        Err(e) => { std::mem::forget(e); None }
    }
}

pub const NDF: usize = SEC * 3; // header + FAT sector + directory sector: small enough for field-sensitive arrays
/// `FaultAt` never produces `ErrorKind::Interrupted`.  std's `write_all` / `read_exact` ask every error
/// `is_interrupted()`, which decodes the bit-packed repr of io::Error - symbolic control for CBMC: the
/// "interrupted, try again" arm is then explored for every call that follows the fault (measured: no
/// verdict within an hour; with this stub 4 s).  Not used by the Chunky harnesses, which do interrupt.
pub fn stub_not_interrupted(_e: &std::io::Error) -> bool { false }

type FD = FaultAt<PtrFile<NDF>>; // the array lives on the harness's stack (a large array inside nested structs is slow for CBMC)

fn mk_dir_fault(at: usize, data: &mut [u8; NDF]) -> (crate::internal::Directory<FD>, [EM; 4]) {
    let ff = [0xffu8; SEC];
    data[soff(0)..soff(0) + SEC].copy_from_slice(&ff);
    put32(&mut data[..], soff(0), FATSECT);
    put32(&mut data[..], soff(0) + 4, EOC);
    let mut root = em_blank();
    root.ty = 5; root.nlen = 10;
    let rn = b"Root Entry";
    let mut k = 0;
    while k < 10 { root.name[k] = rn[k]; k += 1; }
    root.color = 1; root.child = 1; root.start = EOC;
    let mut s1 = em_blank();
    s1.ty = 2; s1.nlen = 1; s1.name[0] = b's'; s1.color = 1; s1.start = EOC;
    s1.state = kani::any();
    let em = [root, s1, em_blank(), em_blank()];
    let mut entries: Vec<crate::internal::DirEntry> = Vec::with_capacity(5);
    let mut s = 0;
    while s < 4 {
        let b = enc(&em[s]);
        let off = soff(1) + DIRENT * s;
        data[off..off + DIRENT].copy_from_slice(&b);
        entries.push(to_dirent(&em[s]));
        s += 1;
    }
    put32(&mut data[..], 44, 1); put32(&mut data[..], 48, 1); put32(&mut data[..], 60, EOC); put32(&mut data[..], 76, 0);
    let file: FD = FaultAt { f: PtrFile::over(data, NDF), armed: true, at, calls: 0, injected: 0,
                             fail_reads: false, fail_writes: true, fail_seeks: true, fail_flush: false };
    let sectors = crate::internal::Sectors::new(crate::internal::Version::V3, NDF as u64, file);
    let mut fat = Vec::with_capacity(4);
    fat.push(FATSECT); fat.push(EOC);
    let alloc = aacc::mk(sectors, Vec::new(), vec![0u32], fat, Vec::new());
    (dacc::mk(alloc, entries, 1), em)
}

macro_rules! c13_dirent_fault {
    ($name:ident, $at:expr) => {
        #[kani::proof]
        #[kani::stub(std::fmt::format, stub_format)]
        #[kani::stub(std::io::Error::is_interrupted, stub_not_interrupted)]
        #[kani::unwind(140)]
        fn $name() {
            let mut backing = [0u8; NDF];
            let (mut d, em) = mk_dir_fault($at, &mut backing);
            let new_len: u64 = kani::any();
            let new_start: u32 = kani::any();
            let bits: u32 = kani::any();
            let r1 = okv(d.with_dir_entry_mut(1, |e| { e.start_sector = new_start; e.stream_len = new_len; e.state_bits = bits; }));
            let inj = secacc::inner_mut(aacc::sectors_mut(dacc::allocator_mut(&mut d))).injected;
            if inj == 1 {
                assert!(r1.is_none(), "C13: a seek/write failure while updating a directory entry was swallowed");
            }
            secacc::inner_mut(aacc::sectors_mut(dacc::allocator_mut(&mut d))).armed = false;
            // the caller retries the very same update (flush after a failed flush, setter after a failed setter)
            let r2 = okv(d.with_dir_entry_mut(1, |e| { e.start_sector = new_start; e.stream_len = new_len; e.state_bits = bits; }));
            assert!(r2.is_some(), "C13: the retried update failed without a fault");
            let mut want = em[1];
            want.start = new_start; want.len = new_len; want.state = bits;
            let b = enc(&want);
            let img = d.inner().f.d();
            let mut ok = true;
            let mut k = 0;
            while k < DIRENT {
                ok &= img[soff(1) + DIRENT + k] == b[k];
                k += 1;
            }
            assert!(ok, "C13/C02/C17: after a failed and successfully retried directory update the entry in the file is not the entry in memory (an Ok that is not durable)");
            kani::cover!(inj == 1, "a fault was injected");
            kani::cover!(true, "end");
            std::mem::forget(d);
        }
    };
}
c13_dirent_fault!(c13_dirent_fault_at0, 0);
c13_dirent_fault!(c13_dirent_fault_at1, 1);
c13_dirent_fault!(c13_dirent_fault_at2, 2);
c13_dirent_fault!(c13_dirent_fault_at3, 3);
c13_dirent_fault!(c13_dirent_fault_at9, 9);
c13_dirent_fault!(c13_dirent_fault_at20, 20);

// ---- a fault while the FIRST mini sector of a file is allocated ----
// (fresh file: no MiniFAT, no mini stream).  begin_mini_chain creates the
// MiniFAT sector, records it in the header, writes the MiniFAT cell, creates
// the mini stream's first sector and updates the root entry.  The k-th backend
// seek/write fails; the call is then retried without a fault.  If the retry
// says Ok the header must name the MiniFAT chain the allocator uses (or the
// reopened file has a mini stream without a MiniFAT), the MiniFAT cell and the
// root entry must be in the file.
use crate::internal::{DirEntry, MiniAllocator, Sectors, Version};
pub const NBF: usize = SEC * (1 + 4); // header, FAT, directory, + the two sectors the scenario appends
type FBF = FaultAt<PtrFile<NBF>>;

fn mk_bare_fault(at: usize, fail_writes: bool, data: &mut [u8; NBF]) -> MiniAllocator<FBF> {
    let fatv = [FATSECT, EOC];
    let ff = [0xffu8; SEC];
    data[soff(0)..soff(0) + SEC].copy_from_slice(&ff);
    let mut i = 0;
    while i < 2 { put32(&mut data[..], soff(0) + 4 * i, fatv[i]); i += 1; }
    let mut root = em_blank();
    root.ty = 5; root.nlen = 10;
    let rn = b"Root Entry";
    let mut k = 0;
    while k < 10 { root.name[k] = rn[k]; k += 1; }
    root.color = 1; root.child = 1; root.start = EOC; root.len = 0;
    let mut s1 = em_blank();
    s1.ty = 2; s1.nlen = 1; s1.name[0] = b's'; s1.color = 1; s1.start = EOC;
    let em = [root, s1, em_blank(), em_blank()];
    let mut entries: Vec<DirEntry> = Vec::with_capacity(5);
    let mut s = 0;
    while s < 4 {
        let b = enc(&em[s]);
        let off = soff(1) + DIRENT * s;
        data[off..off + DIRENT].copy_from_slice(&b);
        entries.push(to_dirent(&em[s]));
        s += 1;
    }
    put32(&mut data[..], 44, 1); put32(&mut data[..], 48, 1); put32(&mut data[..], 60, EOC); put32(&mut data[..], 64, 0); put32(&mut data[..], 76, 0);
    let len = SEC * 3;
    let file: FBF = FaultAt { f: PtrFile::over(data, len), armed: true, at, calls: 0, injected: 0,
                              fail_reads: false, fail_writes, fail_seeks: true, fail_flush: false };
    let sectors = Sectors::new(Version::V3, len as u64, file);
    let mut fat = Vec::with_capacity(10);
    let free: Vec<u32> = Vec::with_capacity(10);
    i = 0;
    while i < 2 { fat.push(fatv[i]); i += 1; }
    let alloc = aacc::mk(sectors, Vec::new(), vec![0u32], fat, free);
    let dir = dacc::mk(alloc, entries, 1);
    macc::mk(dir, Vec::with_capacity(4), EOC, Vec::with_capacity(4))
}

macro_rules! c13_mini_first_fault {
    ($name:ident, $at:expr) => { c13_mini_first_fault!($name, $at, true); };
    ($name:ident, $at:expr, $fw:expr) => {
        #[kani::proof]
        #[kani::stub(std::fmt::format, stub_format)]
        #[kani::stub(std::io::copy, stub_io_copy)]
        #[kani::stub(std::io::Error::is_interrupted, stub_not_interrupted)]
        #[kani::unwind(140)]
        fn $name() {
            let mut backing = [0u8; NBF];
            let mut m = mk_bare_fault($at, $fw, &mut backing);
            let r1 = okv(m.begin_mini_chain());
            let inj = secacc::inner_mut(aacc::sectors_mut(dacc::allocator_mut(macc::directory_mut(&mut m)))).injected;
            if inj == 1 {
                assert!(r1.is_none(), "C13: a seek/write failure while allocating the first mini sector was swallowed");
            }
            secacc::inner_mut(aacc::sectors_mut(dacc::allocator_mut(macc::directory_mut(&mut m)))).armed = false;
            let r2 = okv(m.begin_mini_chain()); // the caller's retry (flush after a failed flush)
            if let Some(id) = r2 {
                let img = m.inner().f.d();
                let ms = macc::minifat_start_sector(&m);
                let mf = macc::minifat(&m);
                assert!(ms != EOC && get32(&img[..], 60) == ms, "C13/C02: after a failed and successfully retried allocation the header does not name the MiniFAT sector the allocator uses (the reopened file has mini sectors but no MiniFAT)");
                assert!(get32(&img[..], 64) >= 1, "C13/C02: header MiniFAT sector count");
                assert!((id as usize) < mf.len() && mf[id as usize] == EOC, "C03: MiniFAT cache cell of the new mini sector");
                assert!(get32(&img[..], soff(ms) + 4 * id as usize) == EOC, "C13/C02: MiniFAT cell of the new mini sector is not in the file");
                let root = &dacc::dir_entries(macc::directory(&m))[0];
                assert!(root.stream_len == (MINI * mf.len()) as u64 && root.start_sector != EOC, "C03: mini stream length = 64 x MiniFAT length");
                assert!(get32(&img[..], soff(1) + 116) == root.start_sector && get64(&img[..], soff(1) + 120) == root.stream_len, "C13/C02: root entry (mini stream start / length) is not in the file");
                kani::cover!(true, "retry succeeded");
            }
            kani::cover!(inj == 1, "a fault was injected");
            kani::cover!(true, "end");
            std::mem::forget(m);
        }
    };
}
c13_mini_first_fault!(c13_mini_first_fault_at0, 0);
c13_mini_first_fault!(c13_mini_first_fault_at1, 1);
c13_mini_first_fault!(c13_mini_first_fault_at2, 2);
c13_mini_first_fault!(c13_mini_first_fault_at3, 3);
c13_mini_first_fault!(c13_mini_first_fault_at4, 4);
c13_mini_first_fault!(c13_mini_first_fault_at5, 5);
c13_mini_first_fault!(c13_mini_first_fault_at6, 6);
c13_mini_first_fault!(c13_mini_first_fault_at7, 7);
c13_mini_first_fault!(c13_mini_first_fault_at8, 8);
// only SEEKS fail (the k-th seek of the backend): reaches the header update (3rd seek) and the growth of
// the mini stream with small k
c13_mini_first_fault!(c13_mini_first_seekfault_at0, 0, false);
c13_mini_first_fault!(c13_mini_first_seekfault_at1, 1, false);
c13_mini_first_fault!(c13_mini_first_seekfault_at2, 2, false);
c13_mini_first_fault!(c13_mini_first_seekfault_at3, 3, false);
c13_mini_first_fault!(c13_mini_first_seekfault_at4, 4, false);
c13_mini_first_fault!(c13_mini_first_seekfault_at5, 5, false);
c13_mini_first_fault!(c13_mini_first_seekfault_at6, 6, false);
c13_mini_first_fault!(c13_mini_first_seekfault_at7, 7, false);
