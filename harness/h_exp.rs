use super::env::*;
use super::h_dirent::*;
use super::util::*;
use crate::internal::{DirEntry, Validation, Version};
fn base() -> [u8; 128] {
    let mut e = em_blank();
    e.ty = 2; e.nlen = 2; e.name[0] = b'a'; e.name[1] = b'b'; e.color = 1; e.start = EOC;
    enc(&e)
}
#[kani::proof]
#[kani::stub(std::fmt::format, stub_format)]
#[kani::unwind(36)]
fn exp_a() {
    let b = base();
    let mut f = F128::new(b, 128);
    let r = DirEntry::read_from(&mut f, Version::V3, Validation::Strict);
    assert!(r.is_ok());
}
#[kani::proof]
#[kani::stub(std::fmt::format, stub_format)]
#[kani::unwind(36)]
fn exp_b() {
    let mut b = base();
    let v: u32 = kani::any();
    put32(&mut b, 96, v);
    let mut f = F128::new(b, 128);
    let r = DirEntry::read_from(&mut f, Version::V3, Validation::Strict);
    assert!(r.is_ok() && r.unwrap().state_bits == v);
}
#[kani::proof]
#[kani::stub(std::fmt::format, stub_format)]
#[kani::unwind(36)]
fn exp_c() {
    let mut b = base();
    let v: u32 = kani::any();
    put32(&mut b, 68, v);
    let w: u32 = kani::any();
    put32(&mut b, 72, w);
    let mut f = F128::new(b, 128);
    let r = DirEntry::read_from(&mut f, Version::V3, Validation::Strict);
    kani::cover!(r.is_ok());
}
#[kani::proof]
#[kani::stub(std::fmt::format, stub_format)]
#[kani::unwind(36)]
fn exp_d() {
    let mut b = base();
    let v: [u8; 16] = kani::any();
    b[80..96].copy_from_slice(&v);
    let mut f = F128::new(b, 128);
    let r = DirEntry::read_from(&mut f, Version::V3, Validation::Permissive);
    kani::cover!(r.is_ok());
}
use crate::ReadLeNumber;
#[kani::proof]
#[kani::unwind(36)]
fn exp_e() {
    let b = base();
    let mut f = F128::new(b, 128);
    f.pos = 64;
    let v = f.read_le_u16().unwrap();
    let mut i = 0u16;
    let mut s = 0u32;
    while i < v { s += i as u32; i += 1; }
    assert!(s == 15);
}
#[kani::proof]
#[kani::unwind(36)]
fn exp_f() {
    let b = base();
    let v = get16(&b, 64);
    let mut i = 0u16;
    let mut s = 0u32;
    while i < v { s += i as u32; i += 1; }
    assert!(s == 15);
}
#[kani::proof]
#[kani::unwind(36)]
fn exp_g() {
    let b = base();
    let f = F128::new(b, 128);
    let v = get16(&f.data, 64);
    let mut i = 0u16;
    let mut s = 0u32;
    while i < v { s += i as u32; i += 1; }
    assert!(s == 15);
}
#[kani::proof]
#[kani::unwind(36)]
fn exp_h() {
    let mut b = [0u8; 128];
    put16(&mut b, 64, 6);
    let v = get16(&b, 64);
    let mut i = 0u16;
    let mut s = 0u32;
    while i < v { s += i as u32; i += 1; }
    assert!(s == 15);
}
#[kani::proof]
#[kani::unwind(36)]
fn exp_i() {
    let mut b = [0u8; 128];
    b[64] = 6;
    let v = b[64] as u16;
    let mut i = 0u16;
    let mut s = 0u32;
    while i < v { s += i as u32; i += 1; }
    assert!(s == 15);
}
#[kani::proof]
#[kani::unwind(36)]
fn exp_j() {
    let mut b = [0u8; 128];
    b[64] = 6;
    let v = u16::from_le_bytes([b[64], b[65]]);
    let mut i = 0u16;
    let mut s = 0u32;
    while i < v { s += i as u32; i += 1; }
    assert!(s == 15);
}
