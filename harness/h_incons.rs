// C11: the stream storage functions (read_data_from_stream /
// write_data_to_stream / resize_stream) on a directory entry whose start
// sector and length DISAGREE with the chains - the kind of "only partly
// consistent" file that permissive open accepts, because open validates the
// tables (range, single pointee) and the tree but never compares an entry's
// (start sector, length) with its chain.  From a well-formed allocator state
// and each class of inconsistent entry, every call must return Ok or Err:
// no failed debug assertion, no arithmetic overflow, no index panic, and it
// must terminate (unwinding assertion).  Nothing is asserted about WHAT is
// returned except where the format leaves no choice.
//
// Classes (slot 1 = "s"; MiniFAT [1, EOC, EOC]: chain 0->1 holds 128 bytes):
//   eoc100    start END_OF_CHAIN, length 100   (a length without a chain)
//   eoc5000   start END_OF_CHAIN, length 5000
//   short300  start 0, length 300              (claims more than the chain holds)
//   reg_in_mini start 0, length 5000           (length says "regular chain", start is the FAT sector)
//   zero_chain  start 0, length 0              (a chain without a length)
// also: extreme new lengths for resize_stream on a CONSISTENT entry, and
// Stream::write from an arbitrary cache state for every u64 length/position.
use super::env::*;
use super::h_stor::*;
use super::util::*;
use crate::internal::stream::vacc as sacc;
use crate::internal::stream_buffer::vacc as bacc;
use std::io::{ErrorKind, Write};
use std::sync::Weak;

/// Ok/Err without running io::Error's drop glue.
fn okf<T>(r: std::io::Result<T>) -> bool {
    match r {
        Ok(v) => { std::mem::forget(v); true }
        Err(e) => { std::mem::forget(e); false }
    }
}

macro_rules! incons {
    ($name:ident, $start:expr, $len:expr, |$m:ident| $op:expr, $must_fail:expr) => {
        #[kani::proof]
        #[kani::stub(std::fmt::format, stub_format)]
        #[kani::stub(std::io::copy, stub_io_copy)]
        #[kani::unwind(210)]
        fn $name() {
            let mut mm = mk_small(&[1, EOC, EOC], $start, $len, 2, 64);
            let ok = {
                let $m = &mut mm;
                $op
            };
            if $must_fail {
                assert!(!ok, "C11/C01: an operation on a stream entry whose length has no chain behind it reported success");
            }
            kani::cover!(true, "end");
            std::mem::forget(mm);
        }
    };
}

// a length without a chain
incons!(c11_incons_eoc100_write0, EOC, 100, |m| { let b: [u8; 10] = kani::any(); okf(sacc::write_data(m, 1, 0, &b)) }, true);
incons!(c11_incons_eoc100_write_at_len, EOC, 100, |m| { let b: [u8; 10] = kani::any(); okf(sacc::write_data(m, 1, 100, &b)) }, true);
incons!(c11_incons_eoc100_resize50, EOC, 100, |m| okf(sacc::resize(m, 1, 50)), true);
incons!(c11_incons_eoc100_resize200, EOC, 100, |m| okf(sacc::resize(m, 1, 200)), true);
incons!(c11_incons_eoc100_resize0, EOC, 100, |m| okf(sacc::resize(m, 1, 0)), true);
incons!(c11_incons_eoc100_read, EOC, 100, |m| { let mut b = [0u8; 10]; okf(sacc::read_data(m, 1, 0, &mut b)) }, true);
incons!(c11_incons_eoc5000_write0, EOC, 5000, |m| { let b: [u8; 10] = kani::any(); okf(sacc::write_data(m, 1, 0, &b)) }, true);
incons!(c11_incons_eoc5000_resize100, EOC, 5000, |m| okf(sacc::resize(m, 1, 100)), true);
// a length that claims more than the chain holds
incons!(c11_incons_short300_write_in, 0, 300, |m| { let b: [u8; 10] = kani::any(); okf(sacc::write_data(m, 1, 60, &b)) }, false);
incons!(c11_incons_short300_write_beyond, 0, 300, |m| { let b: [u8; 10] = kani::any(); okf(sacc::write_data(m, 1, 200, &b)) }, false);
incons!(c11_incons_short300_write_at_len, 0, 300, |m| { let b: [u8; 10] = kani::any(); okf(sacc::write_data(m, 1, 300, &b)) }, false);
incons!(c11_incons_short300_resize100, 0, 300, |m| okf(sacc::resize(m, 1, 100)), false);
incons!(c11_incons_short300_resize320, 0, 300, |m| okf(sacc::resize(m, 1, 320)), false);
incons!(c11_incons_short300_resize0, 0, 300, |m| okf(sacc::resize(m, 1, 0)), false);
incons!(c11_incons_short300_read_beyond, 0, 300, |m| { let mut b = [0u8; 10]; okf(sacc::read_data(m, 1, 200, &mut b)) }, true);
// length says "regular chain", start sector is the FAT sector
incons!(c11_incons_reg_in_mini_write, 0, 5000, |m| { let b: [u8; 10] = kani::any(); okf(sacc::write_data(m, 1, 10, &b)) }, true);
incons!(c11_incons_reg_in_mini_resize100, 0, 5000, |m| okf(sacc::resize(m, 1, 100)), true);
incons!(c11_incons_reg_in_mini_resize0, 0, 5000, |m| okf(sacc::resize(m, 1, 0)), true);
incons!(c11_incons_reg_in_mini_read, 0, 5000, |m| { let mut b = [0u8; 10]; okf(sacc::read_data(m, 1, 0, &mut b)) }, true);
// a chain without a length
incons!(c11_incons_zero_chain_write, 0, 0, |m| { let b: [u8; 10] = kani::any(); okf(sacc::write_data(m, 1, 0, &b)) }, false);
incons!(c11_incons_zero_chain_resize100, 0, 0, |m| okf(sacc::resize(m, 1, 100)), false);

// Extreme new lengths on a CONSISTENT small stream (valid file!): set_len must
// refuse what no file can hold instead of overflowing in Chain::set_len.
incons!(c11_resize_u64max, 0, 100, |m| okf(sacc::resize(m, 1, u64::MAX)), true);
incons!(c11_resize_u64max_m100, 0, 100, |m| okf(sacc::resize(m, 1, u64::MAX - 100)), true);
incons!(c11_resize_u64max_m511, 0, 100, |m| okf(sacc::resize(m, 1, u64::MAX - 511)), true);
// a (version 4) length field next to u64::MAX: appending must be refused, not overflow
incons!(c11_write_data_overflow, 0, u64::MAX - 3, |m| { let b: [u8; 10] = kani::any(); okf(sacc::write_data(m, 1, u64::MAX - 3, &b)) }, true);

type FW = ArrFile<8>;

// Stream::write from an ARBITRARY cache state (every u64 length / window
// offset, every cursor / filled length of a buffer at its maximum size): the
// call returns; Ok(k) means 1 <= k <= n bytes accepted, the position advanced
// by k and the length is max(old, new position); when position + n does not
// fit in u64 the write is refused and nothing changes.
#[kani::proof]
#[kani::stub(std::fmt::format, stub_format)]
#[kani::unwind(6)]
fn c11_write_total() {
    let total_len: u64 = kani::any();
    let off: u64 = kani::any();
    let pos: usize = kani::any();
    let cap: usize = kani::any();
    let dlen = bacc::MIN;
    kani::assume(pos <= cap && cap <= dlen);
    kani::assume(off <= total_len && (cap as u64) <= total_len - off);
    let buffer = bacc::mk(vec![0u8; dlen], pos, cap, dlen);
    // clean handle: the write-back inside write() (buffer full) has nothing to do
    let mut s = sacc::mk_ro::<FW>(Weak::new(), 1, total_len, buffer, off);
    let cur = off + pos as u64;
    let data: [u8; 4] = kani::any();
    let n: usize = kani::any();
    kani::assume(n >= 1 && n <= 4);
    let r = s.write(&data[..n]);
    match r {
        Ok(k) => {
            assert!(cur.checked_add(n as u64).is_some(), "C11/C06: a write that would move the position past u64::MAX was accepted");
            assert!(k >= 1 && k <= n, "C06: a non-empty write accepted no byte or more than it was given");
            assert!(sacc::position(&s) == cur + k as u64, "C06: position after write");
            let want = if cur + k as u64 > total_len { cur + k as u64 } else { total_len };
            assert!(sacc::total_len(&s) == want, "C06: length after write is not max(old length, new position)");
            kani::cover!(pos == dlen, "write into a full buffer (window moves)");
            kani::cover!(cur + k as u64 > total_len, "extending write");
        }
        Err(e) => {
            assert!(cur.checked_add(n as u64).is_none(), "C06: a representable write was refused");
            assert!(e.kind() == ErrorKind::InvalidInput, "C10: error kind of a refused write");
            assert!(sacc::position(&s) == cur && sacc::total_len(&s) == total_len, "C10: a refused write changed the handle");
            kani::cover!(true, "refused write reachable");
            std::mem::forget(e);
        }
    }
    std::mem::forget(s);
}

// ---- a REGULAR stream whose length claims more than its chain holds ----
// slot 1: start sector 4 (a one-sector chain appended to the small layout),
// length 5000 (ten sectors' worth).  Case 3 of write / resize.
fn mk_reg_short() -> crate::internal::MiniAllocator<FS> {
    let mut p = small_parts(&[1, EOC, EOC], 4, 5000, 2, 64);
    put32(&mut p.data, soff(0) + 16, EOC);
    p.fat.push(EOC);
    let fill: [u8; SEC] = kani::any();
    p.data[soff(4)..soff(4) + SEC].copy_from_slice(&fill);
    p.len += SEC;
    let file = ArrFile::new(p.data, p.len);
    assemble(file, p.len, p.fat, p.entries, p.mf, p.mfree)
}

macro_rules! incons_reg {
    ($name:ident, |$m:ident| $op:expr) => {
        #[kani::proof]
        #[kani::stub(std::fmt::format, stub_format)]
        #[kani::stub(std::io::copy, stub_io_copy)]
        #[kani::unwind(210)]
        fn $name() {
            let mut mm = mk_reg_short();
            let _ok = {
                let $m = &mut mm;
                $op
            };
            kani::cover!(true, "end");
            std::mem::forget(mm);
        }
    };
}
incons_reg!(c11_incons_regshort_resize4500, |m| okf(sacc::resize(m, 1, 4500)));
incons_reg!(c11_incons_regshort_resize5100, |m| okf(sacc::resize(m, 1, 5100)));
incons_reg!(c11_incons_regshort_resize100, |m| okf(sacc::resize(m, 1, 100)));
incons_reg!(c11_incons_regshort_write_in, |m| { let b: [u8; 10] = kani::any(); okf(sacc::write_data(m, 1, 100, &b)) });
incons_reg!(c11_incons_regshort_write_beyond, |m| { let b: [u8; 10] = kani::any(); okf(sacc::write_data(m, 1, 3000, &b)) });
incons_reg!(c11_incons_regshort_read, |m| { let mut b = [0u8; 10]; okf(sacc::read_data(m, 1, 600, &mut b)) });

// ---- a mini stream (root entry chain) that runs in a circle ----
// The FAT validator accepts a sector that links to itself (every sector is
// pointed to once).  Growing the mini stream must notice the cycle instead of
// walking it forever: termination is the unwinding assertion of this harness.
#[kani::proof]
#[kani::stub(std::fmt::format, stub_format)]
#[kani::stub(std::io::copy, stub_io_copy)]
#[kani::unwind(210)]
fn c11_root_cycle_append() {
    use crate::internal::alloc::vacc as aacc;
    use crate::internal::directory::vacc as dacc;
    use crate::internal::minialloc::vacc as macc;
    // MiniFAT full for the one mini stream sector (8 one-sector chains), no free mini sector
    let (mut m, _pre) = super::h_mini::mk_mini(&[EOC, EOC, EOC, EOC, EOC, EOC, EOC, EOC], false, false);
    // damage: the mini stream's sector 3 links to itself
    let r = aacc::set_fat(dacc::allocator_mut(macc::directory_mut(&mut m)), 3, 3);
    assert!(okf(r), "harness: set_fat");
    let r = okf(macc::allocate_mini_sector(&mut m, EOC));
    assert!(!r, "C11: growing a mini stream whose sector chain is a cycle reported success");
    kani::cover!(true, "end");
    std::mem::forget(m);
}
