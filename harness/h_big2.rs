// More cases at the 4096-byte cutoff on the layout of h_big.rs: WRITES through
// write_data_to_stream into a regular stream of exactly 4096 bytes and next to
// it (case 3), a write that starts INSIDE a small stream's data and carries it
// past the cutoff (case 2b: migration with the old prefix kept), and a grow of
// a regular stream inside its last sector (case 3c: the slack of that sector
// holds arbitrary stale bytes).  C01 / C03 / C07 / C08 / C18.
use super::env::*;
use super::h_big::*;
use super::util::*;
use crate::internal::alloc::vacc as aacc;
use crate::internal::directory::vacc as dacc;
use crate::internal::minialloc::vacc as macc;
use crate::internal::stream::vacc as sacc;
use crate::internal::MiniAllocator;

fn s_untouched2(data: &[u8; NB], before: &[u8; NB]) {
    let eoff = soff(1) + DIRENT * 2;
    assert!(get32(&data[..], eoff + 116) == 0 && get64(&data[..], eoff + 120) == 100, "C07: the other stream's entry changed");
    let q = any_usize_below(100);
    assert!(big_byte(data, 2, q as u64) == before[soff(3) + q], "C07/C08: the other stream's bytes changed");
}

// ---------------------------------------------- write into the large stream b
macro_rules! big_write_b {
    ($name:ident, $old:expr, $off:expr, $n:expr) => {
        #[kani::proof]
        #[kani::stub(std::fmt::format, stub_format)]
        #[kani::stub(std::io::copy, stub_io_copy)]
        #[kani::unwind(140)]
        fn $name() {
            let mut p = big_parts($old);
            let before: [u8; NB] = p.data;
            let file = ArrFile::new(p.data, p.len);
            let mut m: MiniAllocator<FB> = big_assemble(file, &mut p);
            let old: u64 = $old;
            let off: u64 = $off;
            let n: usize = $n;
            let buf: [u8; 32] = kani::any();
            let r = sacc::write_data(&mut m, 1, off, &buf[..n]);
            assert!(r.is_ok(), "C01: write into a regular stream failed on a well-formed state");
            let new = if off + n as u64 > old { off + n as u64 } else { old };
            let e = &dacc::dir_entries(macc::directory(&m))[1];
            assert!(e.stream_len == new && e.start_sector == 4, "C01/C07: length / start sector of a regular stream after a write (a stream of 4096 bytes or more lives in a regular chain)");
            big_placement(&m, 1);
            let data = &m.inner().data;
            let q: u64 = kani::any();
            kani::assume(q < new);
            let got = big_byte(data, 1, q);
            if q >= off && q < off + n as u64 {
                assert!(got == buf[(q - off) as usize], "C01: written byte does not read back");
            } else if q < old {
                assert!(got == before[soff(4) + q as usize], "C01/C07: byte outside the written range changed");
            }
            // the small stream and the MiniFAT are none of this write's business
            let mf = macc::minifat(&m);
            assert!(mf.len() == 2 && mf[0] == 1 && mf[1] == EOC, "C07: a write into a regular stream touched the MiniFAT (another stream's mini chain)");
            s_untouched2(data, &before);
            kani::cover!(true, "end");
            std::mem::forget(m);
        }
    };
}
big_write_b!(big_write_4096_mid, 4096, 100, 20);     // exactly at the cutoff: regular
big_write_b!(big_write_4096_append, 4096, 4096, 20); // append: a ninth sector
big_write_b!(big_write_5000_tail, 5000, 4990, 20);   // extends inside the last sector

// ------------------- write that starts inside a small stream and crosses the cutoff (case 2b)
#[kani::proof]
#[kani::stub(std::fmt::format, stub_format)]
#[kani::stub(std::io::copy, stub_io_copy)]
#[kani::unwind(140)]
fn big_write_migrate() {
    let mut p = big_parts(0);
    let before: [u8; NB] = p.data;
    let file = ArrFile::new(p.data, p.len);
    let mut m: MiniAllocator<FB> = big_assemble(file, &mut p);
    // s (slot 2) = 100 bytes; write 4050 bytes at offset 60 -> new length 4110
    let head: [u8; 64] = kani::any();
    let mut buf = [0x33u8; 4050];
    buf[..64].copy_from_slice(&head);
    let tailb: [u8; 16] = kani::any();
    buf[4034..].copy_from_slice(&tailb);
    let r = sacc::write_data(&mut m, 2, 60, &buf);
    assert!(r.is_ok(), "C01: a write that carries a small stream past the cutoff failed");
    assert!(dacc::dir_entries(macc::directory(&m))[2].stream_len == 4110, "C01/C06: length after the write");
    big_placement(&m, 2);
    let data = &m.inner().data;
    let q: u64 = kani::any();
    kani::assume(q < 4110);
    let got = big_byte(data, 2, q);
    if q < 60 {
        assert!(got == before[soff(3) + q as usize], "C01/C18: bytes before the write offset were not kept when the stream moved out of the mini stream");
    } else {
        assert!(got == buf[(q - 60) as usize], "C01/C18: written byte does not read back after the stream moved out of the mini stream (one write-back, whatever the buffer size)");
    }
    assert!(macc::minifat(&m).len() == 0, "C15/C03: mini sectors of the migrated stream not released");
    kani::cover!(true, "end");
    std::mem::forget(m);
}

// ------------------- regular stream grown inside its last sector / shrunk without dropping a sector
macro_rules! big_resize_b2 {
    ($name:ident, $old:expr, $new:expr) => {
        #[kani::proof]
        #[kani::stub(std::fmt::format, stub_format)]
        #[kani::stub(std::io::copy, stub_io_copy)]
        #[kani::unwind(140)]
        fn $name() {
            let mut p = big_parts($old);
            let before: [u8; NB] = p.data;
            let file = ArrFile::new(p.data, p.len);
            let mut m: MiniAllocator<FB> = big_assemble(file, &mut p);
            let old: u64 = $old;
            let new: u64 = $new;
            let r = sacc::resize(&mut m, 1, new);
            assert!(r.is_ok(), "C01: resize failed on a well-formed state");
            assert!(dacc::dir_entries(macc::directory(&m))[1].stream_len == new, "C01/C06: length after set_len");
            big_placement(&m, 1);
            let data = &m.inner().data;
            let q: u64 = kani::any();
            kani::assume(q < new);
            let got = big_byte(data, 1, q);
            if q < old {
                assert!(got == before[soff(4) + q as usize], "C01: kept byte changed by resize");
            } else {
                assert!(got == 0, "C08: byte gained by growing a regular stream inside its last sector is not zero (stale slack)");
            }
            s_untouched2(data, &before);
            kani::cover!(true, "end");
            std::mem::forget(m);
        }
    };
}
big_resize_b2!(big_5000_to_5100, 5000, 5100); // slack of the tenth sector is arbitrary
big_resize_b2!(big_5000_to_5120, 5000, 5120); // exactly to the sector boundary
big_resize_b2!(big_5000_to_5200, 5000, 5200); // slack + one new sector
