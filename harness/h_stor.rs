// Stream storage layer (stream.rs: read_data_from_stream / write_data_to_stream
// / resize_stream) on the real MiniAllocator/Directory/Allocator over a
// concrete layout with symbolic contents and symbolic lengths around the
// 64 / 512 / 4096 boundaries.  The contract checked is a flat byte array:
// C01 (content), C03 (placement by the 4096 cutoff, chain length = size),
// C08 (gained bytes are zero), C07 (other stream untouched), C02.
use super::env::*;
use super::h_dirent::*;
use super::util::*;
use crate::internal::alloc::vacc as aacc;
use crate::internal::directory::vacc as dacc;
use crate::internal::minialloc::vacc as macc;
use crate::internal::stream::vacc as sacc;
use crate::internal::{DirEntry, MiniAllocator, Sectors, Version};

// Layout A ("small"): sectors 0 FAT, 1 DIR, 2 MINIFAT, 3 MINI STREAM (8 mini
// sectors), 4.. free/appended.  Streams: slot 1 = "s" (under test), slot 2 =
// "o" (other stream, must stay untouched).
pub const NSA: usize = 4;
pub const NSTOR: usize = SEC * (1 + NSA + 10);
pub type FS = ArrFile<NSTOR>;
pub type PS = PtrFile<NSTOR>;

pub struct StorPre {
    pub s_len: u64,
    pub o_len: u64,
    pub o_byte0: u8,
}

pub struct Parts {
    pub em: [EM; 4],
    pub data: [u8; NSTOR],
    pub len: usize,
    pub fat: Vec<u32>,
    pub entries: Vec<DirEntry>,
    pub mf: Vec<u32>,
    pub mfree: Vec<u32>,
}

/// s: mini chain starting at mini sector `s_start` with length s_len; o: one
/// mini sector `o_start` holding o_len bytes.  Mini stream contents arbitrary.
pub fn small_parts(minifat: &[u32], s_start: u32, s_len: u64, o_start: u32, o_len: u64) -> Parts {
    let nmini = minifat.len();
    let mut data = [0u8; NSTOR];
    let ff = [0xffu8; SEC];
    data[soff(0)..soff(0) + SEC].copy_from_slice(&ff);
    let fat0 = [FATSECT, EOC, EOC, EOC];
    let mut i = 0;
    while i < NSA { put32(&mut data, soff(0) + 4 * i, fat0[i]); i += 1; }
    data[soff(2)..soff(2) + SEC].copy_from_slice(&ff);
    i = 0;
    while i < nmini { put32(&mut data, soff(2) + 4 * i, minifat[i]); i += 1; }
    let fill: [u8; SEC] = kani::any();
    data[soff(3)..soff(3) + SEC].copy_from_slice(&fill);
    let mut em = [em_blank(); 4];
    let mut root = em_blank();
    root.ty = 5; root.nlen = 10;
    let rn = b"Root Entry";
    let mut k = 0;
    while k < 10 { root.name[k] = rn[k]; k += 1; }
    root.color = 1; root.child = 1; root.start = 3; root.len = (MINI * nmini) as u64;
    let mut s1 = em_blank();
    s1.ty = 2; s1.nlen = 1; s1.name[0] = b's'; s1.color = 1; s1.start = s_start; s1.len = s_len; s1.left = 2;
    let mut s2 = em_blank();
    s2.ty = 2; s2.nlen = 1; s2.name[0] = b'o'; s2.color = 1; s2.start = o_start; s2.len = o_len; s2.left = 3;
    // slot 3: an empty storage "d" with arbitrary metadata
    let mut s3 = em_blank();
    s3.ty = 1; s3.nlen = 1; s3.name[0] = b'd'; s3.color = 1;
    s3.state = kani::any(); s3.ct = kani::any(); s3.mt = kani::any(); s3.d1 = kani::any(); s3.d4 = kani::any();
    em[0] = root; em[1] = s1; em[2] = s2; em[3] = s3;
    let mut entries: Vec<DirEntry> = Vec::with_capacity(5);
    let mut s = 0;
    while s < 4 {
        let b = enc(&em[s]);
        let off = soff(1) + DIRENT * s;
        data[off..off + DIRENT].copy_from_slice(&b);
        entries.push(to_dirent(&em[s]));
        s += 1;
    }
    put32(&mut data, 44, 1); put32(&mut data, 48, 1); put32(&mut data, 60, 2); put32(&mut data, 64, 1); put32(&mut data, 76, 0);
    let len = SEC * (1 + NSA);
    let mut fat = Vec::with_capacity(NSA + 12);
    i = 0;
    while i < NSA { fat.push(fat0[i]); i += 1; }
    let mut mf = Vec::with_capacity(72);
    let mut mfree = Vec::with_capacity(72);
    i = 0;
    while i < nmini {
        mf.push(minifat[i]);
        if minifat[i] == FREE { mfree.push(i as u32); }
        i += 1;
    }
    Parts { em, data, len, fat, entries, mf, mfree }
}

pub fn assemble<F>(file: F, len: usize, fat: Vec<u32>, entries: Vec<DirEntry>, mf: Vec<u32>, mfree: Vec<u32>) -> MiniAllocator<F> {
    let sectors = Sectors::new(Version::V3, len as u64, file);
    let alloc = aacc::mk(sectors, Vec::new(), vec![0u32], fat, Vec::new());
    let dir = dacc::mk(alloc, entries, 1);
    macc::mk(dir, mf, 2, mfree)
}

pub fn mk_small(minifat: &[u32], s_start: u32, s_len: u64, o_start: u32, o_len: u64) -> MiniAllocator<FS> {
    let p = small_parts(minifat, s_start, s_len, o_start, o_len);
    let file = ArrFile::new(p.data, p.len);
    assemble(file, p.len, p.fat, p.entries, p.mf, p.mfree)
}

/// Independent read of byte `p` of the stream in directory slot `slot`
/// straight from the image (own FAT / MiniFAT walk).
pub fn image_byte(m: &MiniAllocator<FS>, slot: usize, p: u64) -> u8 {
    data_byte(&m.inner().data, slot, p)
}

pub struct DataRef<'a> { pub data: &'a [u8; NSTOR] }

pub fn data_byte(data: &[u8; NSTOR], slot: usize, p: u64) -> u8 {
    let f = DataRef { data };
    let eoff = soff(1) + DIRENT * slot; // directory sector 1 only (slots 0..3)
    let start = get32(&f.data[..], eoff + 116);
    let len = get64(&f.data[..], eoff + 120);
    assert!(p < len);
    let fat_at = |i: u32| get32(&f.data[..], soff(0) + 4 * i as usize);
    if len < 4096 {
        // mini chain: walk the MiniFAT (sector(s) from header field 60)
        let mfs = get32(&f.data[..], 60);
        let mut ms = start;
        let mut k = p / MINI as u64;
        let mut g = 0;
        while k > 0 && g < 64 {
            ms = get32(&f.data[..], soff(mfs) + 4 * ms as usize);
            k -= 1;
            g += 1;
        }
        // mini sector ms lives in the root chain
        let rstart = get32(&f.data[..], soff(1) + 116);
        let mut rs = rstart;
        let mut hops = ms as usize / 8;
        g = 0;
        while hops > 0 && g < 16 {
            rs = fat_at(rs);
            hops -= 1;
            g += 1;
        }
        f.data[soff(rs) + MINI * (ms as usize % 8) + (p % MINI as u64) as usize]
    } else {
        let mut sct = start;
        let mut k = p / SEC as u64;
        let mut g = 0;
        while k > 0 && g < 16 {
            sct = fat_at(sct);
            k -= 1;
            g += 1;
        }
        f.data[soff(sct) + (p % SEC as u64) as usize]
    }
}

/// Whole content of the (mini) stream in `slot`, reconstructed from the image
/// by an independent walk: one MiniFAT / root-chain walk per mini sector.
pub const MAXB: usize = 320;
pub fn stream_bytes(data: &[u8; NSTOR], slot: usize) -> ([u8; MAXB], usize) {
    let eoff = soff(1) + DIRENT * slot;
    let start = get32(&data[..], eoff + 116);
    let len = get64(&data[..], eoff + 120) as usize;
    let mut out = [0u8; MAXB];
    assert!(len <= MAXB, "C01: stream longer than the harness expects");
    let mfs = get32(&data[..], 60);
    let rstart = get32(&data[..], soff(1) + 116);
    let mut ms = start;
    let mut j = 0;
    while j * MINI < len && j < MAXB / MINI {
        // mini sector ms lives in the root chain
        let mut rs = rstart;
        let mut hops = ms as usize / 8;
        let mut g = 0;
        while hops > 0 && g < 4 {
            rs = get32(&data[..], soff(0) + 4 * rs as usize);
            hops -= 1;
            g += 1;
        }
        let base = soff(rs) + MINI * (ms as usize % 8);
        out[j * MINI..(j + 1) * MINI].copy_from_slice(&data[base..base + MINI]);
        ms = get32(&data[..], soff(mfs) + 4 * ms as usize);
        j += 1;
    }
    (out, len)
}

/// C03 placement + chain length for slot 1 after an operation.
fn check_placement(m: &MiniAllocator<FS>, slot: usize) {
    let dir = macc::directory(m);
    let e = &dacc::dir_entries(dir)[slot];
    let fat = aacc::fat(dacc::allocator(dir));
    let mf = macc::minifat(m);
    let f = m.inner();
    // write-through of the entry's start sector and length
    let eoff = soff(1) + DIRENT * slot;
    assert!(get32(&f.data, eoff + 116) == e.start_sector && get64(&f.data, eoff + 120) == e.stream_len, "C02: stream entry not written through");
    if e.stream_len == 0 {
        assert!(e.start_sector == EOC, "C03: empty stream has a chain");
        return;
    }
    let mut n = 0u64;
    let mut cur = e.start_sector;
    if e.stream_len < 4096 {
        while cur != EOC && n <= 64 {
            assert!((cur as usize) < mf.len() && mf[cur as usize] != FREE, "C03: small stream's chain is not a valid mini chain (placement by the 4096 cutoff)");
            cur = mf[cur as usize];
            n += 1;
        }
        assert!(n == (e.stream_len + 63) / 64, "C03: mini chain length does not match the stream size");
    } else {
        while cur != EOC && n <= 16 {
            assert!((cur as usize) < fat.len() && fat[cur as usize] != FREE && cur >= 4, "C03: large stream's chain is not a valid regular chain (placement by the 4096 cutoff)");
            cur = fat[cur as usize];
            n += 1;
        }
        assert!(n == (e.stream_len + 511) / 512, "C03: regular chain length does not match the stream size");
    }
}

fn check_other_untouched(m: &MiniAllocator<FS>, o_len: u64, before: &[u8; NSTOR], o_first: u32) {
    let dir = macc::directory(m);
    let o = &dacc::dir_entries(dir)[2];
    assert!(o.stream_len == o_len && o.start_sector == o_first, "C07: another stream's entry changed");
    // the other stream occupies one mini sector `o_first` in sector 3
    let (now, nlen) = stream_bytes(&m.inner().data, 2);
    let mut ok = nlen as u64 == o_len;
    let mut p = 0usize;
    while (p as u64) < o_len && p < 64 {
        ok &= now[p] == before[soff(3) + MINI * o_first as usize + p];
        p += 1;
    }
    assert!(ok, "C07/C08: another stream's bytes changed");
}

// --------------------------------------------------------------------- write
// Control values (offset, length, new size) are concrete per instance and sit
// on / next to the 64-byte mini sector boundary; data bytes are symbolic.
macro_rules! stor_write_case {
    ($name:ident, $off:expr, $n:expr) => {
        #[kani::proof]
        #[kani::stub(std::fmt::format, stub_format)]
        #[kani::stub(std::io::copy, stub_io_copy)]
        #[kani::unwind(210)]
        fn $name() {
            // s = mini sectors 0->1 (100 bytes), o = mini sector 2 (64 bytes)
            let mut m = mk_small(&[1, EOC, EOC], 0, 100, 2, 64);
            let before: [u8; NSTOR] = m.inner().data;
            let off: u64 = $off;
            let n: usize = $n;
            let buf: [u8; 40] = kani::any();
            let r = sacc::write_data(&mut m, 1, off, &buf[..n]);
            assert!(r.is_ok(), "C01: write failed on a well-formed state");
            let new_len = if off + n as u64 > 100 { off + n as u64 } else { 100 };
            let e = &dacc::dir_entries(macc::directory(&m))[1];
            assert!(e.stream_len == new_len, "C01: stream length after write is not max(old, offset + n)");
            check_placement(&m, 1);
            let (now, nlen) = stream_bytes(&m.inner().data, 1);
            assert!(nlen as u64 == new_len, "C02: stream length in the image");
            let mut ok_w = true;
            let mut ok_k = true;
            let mut p = 0usize;
            while p < new_len as usize {
                if p as u64 >= off && (p as u64) < off + n as u64 {
                    ok_w &= now[p] == buf[p - off as usize];
                } else if p < 100 {
                    let ms = if p < 64 { 0 } else { 1 };
                    ok_k &= now[p] == before[soff(3) + MINI * ms + (p % 64)];
                }
                p += 1;
            }
            assert!(ok_w, "C01: written byte does not read back");
            assert!(ok_k, "C01/C07: byte outside the written range changed");
            check_other_untouched(&m, 64, &before, 2);
            kani::cover!(true, "end");
            std::mem::forget(m);
        }
    };
}
stor_write_case!(stor_write_mid, 60, 10);      // crosses the 64-byte boundary inside the chain
stor_write_case!(stor_write_append, 100, 28);  // fills the last mini sector exactly (to 128)
stor_write_case!(stor_write_extend, 100, 29);  // needs one more mini sector (129)
stor_write_case!(stor_write_empty, 37, 0);

// ---------------------------------------------------------------------- read
macro_rules! stor_read_case {
    ($name:ident, $off:expr, $n:expr) => {
        #[kani::proof]
        #[kani::stub(std::fmt::format, stub_format)]
        #[kani::unwind(210)]
        fn $name() {
            let mut m = mk_small(&[2, EOC, EOC], 0, 100, 1, 64); // fragmented: s = 0->2
            let before: [u8; NSTOR] = m.inner().data;
            let off: u64 = $off;
            let n: usize = $n;
            let mut buf = [0u8; 70];
            let r = sacc::read_data(&mut m, 1, off, &mut buf[..n]);
            assert!(r.is_ok(), "C01/C05: read failed on a well-formed state");
            let got = r.unwrap();
            let want = if off >= 100 { 0 } else if (100 - off) < n as u64 { (100 - off) as usize } else { n };
            assert!(got == want, "C01/C06: read count is not min(n, len - offset)");
            let mut ok = true;
            let mut k = 0;
            while k < got {
                let p = off + k as u64;
                let ms = if p < 64 { 0 } else { 2 };
                ok &= buf[k] == before[soff(3) + MINI * ms + (p % 64) as usize];
                k += 1;
            }
            assert!(ok, "C01/C04: read returns bytes that differ from the stream's content in the image (fragmented mini chain)");
            let j = any_usize_below(SEC * (1 + NSA));
            assert!(m.inner().data[j] == before[j], "C12/C07: a read modified the image");
            assert!(m.inner().len == SEC * (1 + NSA), "C12: a read changed the file length");
            kani::cover!(true, "end");
            std::mem::forget(m);
        }
    };
}
stor_read_case!(stor_read_cross, 60, 10);
stor_read_case!(stor_read_clip, 90, 20);
stor_read_case!(stor_read_all, 0, 70);
stor_read_case!(stor_read_past, 100, 5);

// -------------------------------------------------------------------- resize
macro_rules! stor_resize_case {
    ($name:ident, $mf:expr, $ostart:expr, $new:expr) => {
        #[kani::proof]
        #[kani::stub(std::fmt::format, stub_format)]
        #[kani::stub(std::io::copy, stub_io_copy)]
        #[kani::unwind(210)]
        fn $name() {
            let mfa = $mf;
            let old: u64 = 100;
            let mut m = mk_small(&mfa, 0, old, $ostart, 64);
            let before: [u8; NSTOR] = m.inner().data;
            let new: u64 = $new;
            let r = sacc::resize(&mut m, 1, new);
            assert!(r.is_ok(), "C01: resize failed on a well-formed state");
            let e = &dacc::dir_entries(macc::directory(&m))[1];
            assert!(e.stream_len == new, "C01/C06: length after set_len");
            check_placement(&m, 1);
            let (now, nlen) = stream_bytes(&m.inner().data, 1);
            assert!(nlen as u64 == new, "C02: stream length in the image");
            let mut kept = true;
            let mut zero = true;
            let mut p = 0usize;
            while p < new as usize {
                if (p as u64) < old {
                    let ms = if p < 64 { 0usize } else { mfa[0] as usize };
                    kept &= now[p] == before[soff(3) + MINI * ms + (p % 64)];
                } else {
                    zero &= now[p] == 0;
                }
                p += 1;
            }
            assert!(kept, "C01: kept byte changed by resize");
            assert!(zero, "C08: byte gained by growing the stream is not zero");
            check_other_untouched(&m, 64, &before, $ostart);
            kani::cover!(true, "end");
            std::mem::forget(m);
        }
    };
}
// A: s = 0->1, o = 2: grow inside the last mini sector / to the boundary / one past / by two sectors; shrink; to zero
stor_resize_case!(stor_resize_in_sector, [1, EOC, EOC], 2, 120);
stor_resize_case!(stor_resize_to_128, [1, EOC, EOC], 2, 128);
stor_resize_case!(stor_resize_to_129, [1, EOC, EOC], 2, 129);
stor_resize_case!(stor_resize_shrink_64, [1, EOC, EOC], 2, 64);
stor_resize_case!(stor_resize_shrink_63, [1, EOC, EOC], 2, 63);
stor_resize_case!(stor_resize_to_0, [1, EOC, EOC], 2, 0);
// B: mini sector 2 is FREE with arbitrary stale content: growth reuses it
stor_resize_case!(stor_resize_reuse, [1, EOC, FREE, EOC], 3, 200);
// C: fragmented chain s = 0->2, o = 1
stor_resize_case!(stor_resize_frag, [2, EOC, EOC], 1, 150);
