#![allow(dead_code)]
use super::*;
pub(crate) fn mk<F>(directory: Directory<F>, minifat: Vec<u32>, minifat_start_sector: u32, free_mini_sectors: Vec<u32>) -> MiniAllocator<F> {
    MiniAllocator { directory, minifat, minifat_start_sector, free_mini_sectors }
}
pub(crate) fn directory<F>(m: &MiniAllocator<F>) -> &Directory<F> { &m.directory }
pub(crate) fn directory_mut<F>(m: &mut MiniAllocator<F>) -> &mut Directory<F> { &mut m.directory }
pub(crate) fn minifat<F>(m: &MiniAllocator<F>) -> &Vec<u32> { &m.minifat }
pub(crate) fn minifat_start_sector<F>(m: &MiniAllocator<F>) -> u32 { m.minifat_start_sector }
pub(crate) fn free_mini_sectors<F>(m: &MiniAllocator<F>) -> &Vec<u32> { &m.free_mini_sectors }
pub(crate) fn validate<F>(m: &mut MiniAllocator<F>, v: Validation) -> io::Result<()> { m.validate(v) }
pub(crate) fn allocate_mini_sector<F: Write + Seek>(m: &mut MiniAllocator<F>, value: u32) -> io::Result<u32> { m.allocate_mini_sector(value) }
pub(crate) fn free_mini_sector<F: Write + Seek>(m: &mut MiniAllocator<F>, id: u32) -> io::Result<()> { m.free_mini_sector(id) }
pub(crate) fn set_minifat<F: Write + Seek>(m: &mut MiniAllocator<F>, i: u32, v: u32) -> io::Result<()> { m.set_minifat(i, v) }
