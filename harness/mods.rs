// further harness modules
pub(crate) mod util;
pub(crate) mod lockty;
pub(crate) mod vlock;
pub(crate) mod uptable;
pub(crate) mod h_alloc;
mod h_names;
pub(crate) mod h_dirent;
pub(crate) mod h_dir;
pub(crate) mod h_mini;
mod h_exp;
pub(crate) mod h_stor;
pub(crate) mod h_cache;
mod h_header;
mod h_validate;
pub(crate) mod h_api;
mod h_lock;
mod h_fault;
mod h_chunky;
