// further harness modules
pub(crate) mod util;
pub(crate) mod uptable;
mod h_alloc;
mod h_names;
pub(crate) mod h_dirent;
pub(crate) mod h_dir;
pub(crate) mod h_mini;
mod h_exp;
pub(crate) mod h_stor;
pub(crate) mod h_cache;
