// further harness modules
pub(crate) mod util;
mod h_alloc;
mod h_names;
