// generated list of further harness modules
