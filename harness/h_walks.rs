// C11: the walks of the write path (free_mini_chain, free_mini_chain_after,
// extend_mini_chain, Allocator::extend_chain) are reached with start sectors
// taken from directory entries that permissive `open` never validated.  From
// a well-formed allocator state and an ARBITRARY start sector each of them
// must return (Ok or Err): no index panic, no endless loop (unwinding
// assertion).  The tables are concrete and well formed (that is what open
// validates: range, single pointee), the mini stream bytes are the solver's.
// The start sector is enumerated per instance over its classes (first cell
// past the table, far outside, MAX_REGULAR_SECTOR, the FREE marker, a FREE
// cell inside the table, the FAT sector's own cell, inside a chain): a
// symbolic start makes every table write a write at a symbolic offset inside
// a loop CBMC can only unwind to the bound (measured: > 10 min per instance,
// fixed or not).  That the checked lookups themselves are total for ALL u32
// is `alloc_next_total` / `mini_next_total`.
use super::env::*;
use super::h_alloc::*;
use super::h_mini::*;
use super::util::*;
use super::h_dirent::*;
use crate::internal::alloc::vacc as aacc;
use crate::internal::directory::vacc as dacc;
use crate::internal::minialloc::vacc as macc;
use crate::internal::SectorInit;

/// Ok/Err without running io::Error's drop glue (its repr decoding makes
/// control symbolic for CBMC).
fn okf<T>(r: std::io::Result<T>) -> bool {
    match r {
        Ok(v) => { std::mem::forget(v); true }
        Err(e) => { std::mem::forget(e); false }
    }
}

macro_rules! walk_mini {
    ($name:ident, $mf:expr, $op:expr, $start:expr) => {
        #[kani::proof]
        #[kani::stub(std::fmt::format, stub_format)]
        #[kani::stub(std::io::copy, stub_io_copy)]
        #[kani::unwind(130)]
        fn $name() {
            let mfa = $mf;
            let (mut m, _pre) = mk_mini(&mfa, false, false);
            let n = mfa.len() as u32;
            let start: u32 = $start;
            let op: u8 = $op;
            let r = match op {
                0 => okf(m.free_mini_chain(start)),
                1 => okf(m.free_mini_chain_after(start)),
                _ => okf(m.extend_mini_chain(start)),
            };
            if start >= n {
                assert!(!r, "C11: a walk from a start sector outside the MiniFAT reported success");
            }
            let mf = macc::minifat(&m);
            assert!(mf.len() <= mfa.len() + 1, "C11/C03: MiniFAT grew by more than one cell");
            kani::cover!(true, "end");
            std::mem::forget(m);
        }
    };
}

// MiniFAT: chain 0->1, chain {2}, free cell 3 in the middle, chain {4}
walk_mini!(c11_free_mini_chain_past_end, [1, EOC, EOC, FREE, EOC], 0, 5);
walk_mini!(c11_free_mini_chain_far, [1, EOC, EOC, FREE, EOC], 0, 1000);
walk_mini!(c11_free_mini_chain_maxreg, [1, EOC, EOC, FREE, EOC], 0, 0xFFFF_FFFA);
walk_mini!(c11_free_mini_chain_freemark, [1, EOC, EOC, FREE, EOC], 0, FREE);
walk_mini!(c11_free_mini_chain_at_free, [1, EOC, EOC, FREE, EOC], 0, 3);
walk_mini!(c11_free_mini_after_past_end, [1, EOC, EOC, FREE, EOC], 1, 5);
walk_mini!(c11_free_mini_after_far, [1, EOC, EOC, FREE, EOC], 1, 1000);
walk_mini!(c11_free_mini_after_maxreg, [1, EOC, EOC, FREE, EOC], 1, 0xFFFF_FFFA);
walk_mini!(c11_free_mini_after_freemark, [1, EOC, EOC, FREE, EOC], 1, FREE);
walk_mini!(c11_free_mini_after_at_free, [1, EOC, EOC, FREE, EOC], 1, 3);
walk_mini!(c11_extend_mini_past_end, [1, EOC, EOC, FREE, EOC], 2, 5);
walk_mini!(c11_extend_mini_far, [1, EOC, EOC, FREE, EOC], 2, 1000);
walk_mini!(c11_extend_mini_maxreg, [1, EOC, EOC, FREE, EOC], 2, 0xFFFF_FFFA);
walk_mini!(c11_extend_mini_freemark, [1, EOC, EOC, FREE, EOC], 2, FREE);
walk_mini!(c11_extend_mini_at_free, [1, EOC, EOC, FREE, EOC], 2, 3);
walk_mini!(c11_free_mini_chain_inside, [1, EOC, EOC, FREE, EOC], 0, 1);

macro_rules! walk_fat {
    ($name:ident, $start:expr) => {
        #[kani::proof]
        #[kani::stub(std::fmt::format, stub_format)]
        #[kani::stub(std::io::copy, stub_io_copy)]
        #[kani::unwind(130)]
        fn $name() {
            // sector 0 = FAT sector, chain 1->2, sector 3 free
            let pre: [u32; NS] = [FATSECT, 2, EOC, FREE];
            let mut a = mk_alloc_from(&pre, 0);
            let start: u32 = $start;
            let r = okf(a.extend_chain(start, SectorInit::Zero));
            if start as usize >= NS || start == 0 || start == 3 {
                assert!(!r, "C11: extend_chain from a start sector that is no chain sector reported success");
            }
            kani::cover!(true, "end");
            std::mem::forget(a);
        }
    };
}
walk_fat!(c11_extend_chain_past_end, 4);
walk_fat!(c11_extend_chain_far, 1000);
walk_fat!(c11_extend_chain_maxreg, 0xFFFF_FFFA);
walk_fat!(c11_extend_chain_freemark, FREE);
walk_fat!(c11_extend_chain_at_free, 3);
walk_fat!(c11_extend_chain_at_fatsect, 0);
walk_fat!(c11_extend_chain_inside, 2);

/// next_mini_sector is total: any MiniFAT contents (4 cells), any argument.
#[kani::proof]
#[kani::stub(std::fmt::format, stub_format)]
#[kani::stub(std::io::copy, stub_io_copy)]
#[kani::unwind(130)]
fn mini_next_total() {
    let cells: [u32; 4] = kani::any();
    let mut mf = Vec::with_capacity(4);
    let mut i = 0;
    while i < 4 { mf.push(cells[i]); i += 1; }
    let mut root = em_blank();
    root.ty = 5; root.nlen = 10;
    let rn = b"Root Entry";
    let mut k = 0;
    while k < 10 { root.name[k] = rn[k]; k += 1; }
    root.color = 1; root.start = EOC;
    let mut entries = Vec::with_capacity(1);
    entries.push(to_dirent(&root));
    let file = ArrFile::new([0u8; 8], 0);
    let sectors = crate::internal::Sectors::new(crate::internal::Version::V3, 512, file);
    let alloc = aacc::mk(sectors, Vec::new(), Vec::new(), Vec::new(), Vec::new());
    let dir = dacc::mk(alloc, entries, 1);
    let m = macc::mk(dir, mf, EOC, Vec::new());
    let id: u32 = kani::any();
    match m.next_mini_sector(id) {
        Ok(n) => {
            assert!(id < 4, "C11/C05: next_mini_sector accepted an index outside the MiniFAT");
            assert!(n == cells[id as usize], "C04: next_mini_sector returned something else than the cell");
            assert!(n == EOC || n < 4, "C11/C05: next_mini_sector returned a link outside the MiniFAT");
            kani::cover!(n == EOC, "end of chain");
            kani::cover!(n != EOC, "link");
        }
        Err(e) => {
            assert!(id >= 4 || (cells[id as usize] != EOC && cells[id as usize] >= 4), "C04: next_mini_sector refused a valid link");
            kani::cover!(id >= 4, "refused: index");
            kani::cover!(id < 4, "refused: link");
            std::mem::forget(e);
        }
    }
    std::mem::forget(m);
}
