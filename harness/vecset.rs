// Vec-backed replacement for fnv::FnvHashSet under cfg(kani).  The crate only
// ever uses `default`, `contains` and `insert`, never iterates.
pub struct FnvHashSet<T>(Vec<T>);
impl<T: PartialEq + Copy> FnvHashSet<T> {
    pub fn contains(&self, x: &T) -> bool {
        let mut i = 0;
        while i < self.0.len() {
            if self.0[i] == *x {
                return true;
            }
            i += 1;
        }
        false
    }
    pub fn insert(&mut self, x: T) -> bool {
        if self.contains(&x) {
            false
        } else {
            self.0.push(x);
            true
        }
    }
}
impl<T> Default for FnvHashSet<T> {
    fn default() -> Self {
        FnvHashSet(Vec::new())
    }
}
