// Shared constants, little-endian decoding and independent readers of the
// byte image (no library function is called from here).
#![allow(dead_code)]
use super::env::ArrFile;

pub const MAXREG: u32 = 0xffff_fffa;
pub const DIFSECT: u32 = 0xffff_fffc;
pub const FATSECT: u32 = 0xffff_fffd;
pub const EOC: u32 = 0xffff_fffe;
pub const FREE: u32 = 0xffff_ffff;
pub const NOSTREAM: u32 = 0xffff_ffff;
pub const SEC: usize = 512;
pub const MINI: usize = 64;
pub const DIRENT: usize = 128;

pub fn put32(a: &mut [u8], off: usize, v: u32) {
    let b = v.to_le_bytes();
    a[off] = b[0];
    a[off + 1] = b[1];
    a[off + 2] = b[2];
    a[off + 3] = b[3];
}
pub fn put16(a: &mut [u8], off: usize, v: u16) {
    let b = v.to_le_bytes();
    a[off] = b[0];
    a[off + 1] = b[1];
}
pub fn put64(a: &mut [u8], off: usize, v: u64) {
    put32(a, off, v as u32);
    put32(a, off + 4, (v >> 32) as u32);
}
pub fn get32(a: &[u8], off: usize) -> u32 {
    u32::from_le_bytes([a[off], a[off + 1], a[off + 2], a[off + 3]])
}
pub fn get16(a: &[u8], off: usize) -> u16 {
    u16::from_le_bytes([a[off], a[off + 1]])
}
pub fn get64(a: &[u8], off: usize) -> u64 {
    (get32(a, off) as u64) | ((get32(a, off + 4) as u64) << 32)
}
/// byte offset of sector `id` (v3)
pub fn soff(id: u32) -> usize {
    (id as usize + 1) * SEC
}
pub fn any_below(n: u32) -> u32 {
    let v: u32 = kani::any();
    kani::assume(v < n);
    v
}
pub fn any_usize_below(n: usize) -> usize {
    let v: usize = kani::any();
    kani::assume(v < n);
    v
}
