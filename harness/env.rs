// Environment models for the solver: backing stores implementing
// Read/Write/Seek over fixed arrays.  No std I/O, no heap.
#![allow(dead_code)]
use std::io::{self, Read, Seek, SeekFrom, Write};

const SMALL: usize = 16;

/// Fixed-size, infallible backing store.  Running out of the array or
/// writing beyond the current end is assumed away (environment assumption
/// "the backing store has room and is written contiguously").
pub struct ArrFile<const N: usize> {
    pub data: [u8; N],
    pub len: usize,
    pub pos: usize,
    pub writes: usize,
    pub flushes: usize,
}

impl<const N: usize> ArrFile<N> {
    pub fn new(data: [u8; N], len: usize) -> Self {
        ArrFile { data, len, pos: 0, writes: 0, flushes: 0 }
    }
    pub fn u32_at(&self, off: usize) -> u32 {
        u32::from_le_bytes([
            self.data[off],
            self.data[off + 1],
            self.data[off + 2],
            self.data[off + 3],
        ])
    }
    pub fn u16_at(&self, off: usize) -> u16 {
        u16::from_le_bytes([self.data[off], self.data[off + 1]])
    }
    pub fn u64_at(&self, off: usize) -> u64 {
        (self.u32_at(off) as u64) | ((self.u32_at(off + 4) as u64) << 32)
    }
}

impl<const N: usize> Read for ArrFile<N> {
    fn read(&mut self, buf: &mut [u8]) -> io::Result<usize> {
        let avail = if self.pos < self.len { self.len - self.pos } else { 0 };
        let n = if buf.len() < avail { buf.len() } else { avail };
        if n > 0 {
            if n <= SMALL {
                // byte-wise for small transfers: keeps CBMC's constant
                // propagation alive (memcpy of an array region does not)
                let mut i = 0;
                while i < n && i < SMALL {
                    buf[i] = self.data[self.pos + i];
                    i += 1;
                }
            } else {
                buf[..n].copy_from_slice(&self.data[self.pos..self.pos + n]);
            }
            self.pos += n;
        }
        Ok(n)
    }
}

impl<const N: usize> Write for ArrFile<N> {
    fn write(&mut self, buf: &[u8]) -> io::Result<usize> {
        let n = buf.len();
        kani::assume(self.pos <= self.len);
        kani::assume(self.pos + n <= N);
        if n > 0 {
            if n <= SMALL {
                let mut i = 0;
                while i < n && i < SMALL {
                    self.data[self.pos + i] = buf[i];
                    i += 1;
                }
            } else {
                self.data[self.pos..self.pos + n].copy_from_slice(buf);
            }
            self.pos += n;
            if self.pos > self.len {
                self.len = self.pos;
            }
        }
        self.writes += 1;
        Ok(n)
    }
    fn flush(&mut self) -> io::Result<()> {
        self.flushes += 1;
        Ok(())
    }
}

impl<const N: usize> Seek for ArrFile<N> {
    fn seek(&mut self, pos: SeekFrom) -> io::Result<u64> {
        let new = match pos {
            SeekFrom::Start(n) => {
                kani::assume(n <= N as u64);
                n as usize
            }
            SeekFrom::End(d) => {
                let t = self.len as i64 + d;
                kani::assume(t >= 0 && t <= N as i64);
                t as usize
            }
            SeekFrom::Current(d) => {
                let t = self.pos as i64 + d;
                kani::assume(t >= 0 && t <= N as i64);
                t as usize
            }
        };
        self.pos = new;
        Ok(new as u64)
    }
}

/// Same as ArrFile, but the bytes live in an array owned by the harness (on
/// its stack) and are reached through a raw pointer.  Used wherever the
/// MiniAllocator sits behind an Arc: a 7 KB array inside a heap object makes
/// every access a byte_extract on a dynamic object, which CBMC does not
/// constant-propagate; a stack array is field-sensitive.
pub struct PtrFile<const N: usize> {
    pub p: *mut [u8; N],
    pub len: usize,
    pub pos: usize,
    pub writes: usize,
    pub flushes: usize,
}

impl<const N: usize> PtrFile<N> {
    /// `buf` must outlive the file and must not be moved afterwards.
    pub fn over(buf: &mut [u8; N], len: usize) -> Self {
        PtrFile { p: buf as *mut [u8; N], len, pos: 0, writes: 0, flushes: 0 }
    }
    pub fn d(&self) -> &[u8; N] {
        unsafe { &*self.p }
    }
    pub fn d_mut(&mut self) -> &mut [u8; N] {
        unsafe { &mut *self.p }
    }
}

impl<const N: usize> Read for PtrFile<N> {
    fn read(&mut self, buf: &mut [u8]) -> io::Result<usize> {
        let avail = if self.pos < self.len { self.len - self.pos } else { 0 };
        let n = if buf.len() < avail { buf.len() } else { avail };
        if n > 0 {
            let pos = self.pos;
            let d = self.d();
            if n <= SMALL {
                let mut i = 0;
                while i < n && i < SMALL {
                    buf[i] = d[pos + i];
                    i += 1;
                }
            } else {
                buf[..n].copy_from_slice(&d[pos..pos + n]);
            }
            self.pos += n;
        }
        Ok(n)
    }
}

impl<const N: usize> Write for PtrFile<N> {
    fn write(&mut self, buf: &[u8]) -> io::Result<usize> {
        let n = buf.len();
        kani::assume(self.pos <= self.len);
        kani::assume(self.pos + n <= N);
        if n > 0 {
            let pos = self.pos;
            let d = self.d_mut();
            if n <= SMALL {
                let mut i = 0;
                while i < n && i < SMALL {
                    d[pos + i] = buf[i];
                    i += 1;
                }
            } else {
                d[pos..pos + n].copy_from_slice(buf);
            }
            self.pos += n;
            if self.pos > self.len {
                self.len = self.pos;
            }
        }
        self.writes += 1;
        Ok(n)
    }
    fn flush(&mut self) -> io::Result<()> {
        self.flushes += 1;
        Ok(())
    }
}

impl<const N: usize> Seek for PtrFile<N> {
    fn seek(&mut self, pos: SeekFrom) -> io::Result<u64> {
        let new = match pos {
            SeekFrom::Start(n) => {
                kani::assume(n <= N as u64);
                n as usize
            }
            SeekFrom::End(d) => {
                let t = self.len as i64 + d;
                kani::assume(t >= 0 && t <= N as i64);
                t as usize
            }
            SeekFrom::Current(d) => {
                let t = self.pos as i64 + d;
                kani::assume(t >= 0 && t <= N as i64);
                t as usize
            }
        };
        self.pos = new;
        Ok(new as u64)
    }
}

/// A backing store whose transfers are split arbitrarily: each read/write
/// moves a solver-chosen count 1..=n, or reports `Interrupted`, within a
/// budget of short events.
pub struct ChunkyFile<T> {
    pub f: T,
    pub budget: u32,
}

impl<T> ChunkyFile<T> {
    fn chunk(&mut self, n: usize) -> Option<usize> {
        if n <= 1 || self.budget == 0 {
            return Some(n);
        }
        let k: usize = kani::any();
        if k == 0 {
            self.budget -= 1;
            return None; // Interrupted
        }
        if k < n {
            self.budget -= 1;
            Some(k)
        } else {
            Some(n)
        }
    }
}

impl<T: Read> Read for ChunkyFile<T> {
    fn read(&mut self, buf: &mut [u8]) -> io::Result<usize> {
        match self.chunk(buf.len()) {
            None => Err(io::Error::from(io::ErrorKind::Interrupted)),
            Some(k) => self.f.read(&mut buf[..k]),
        }
    }
}
impl<T: Write> Write for ChunkyFile<T> {
    fn write(&mut self, buf: &[u8]) -> io::Result<usize> {
        match self.chunk(buf.len()) {
            None => Err(io::Error::from(io::ErrorKind::Interrupted)),
            Some(k) => self.f.write(&buf[..k]),
        }
    }
    fn flush(&mut self) -> io::Result<()> {
        self.f.flush()
    }
}
impl<T: Seek> Seek for ChunkyFile<T> {
    fn seek(&mut self, pos: SeekFrom) -> io::Result<u64> {
        self.f.seek(pos)
    }
}

/// A backing store that may fail: each read/write/seek/flush consults a
/// solver-chosen flag, within a budget of faults.  `log` counts faults
/// actually injected.
pub struct FaultyFile<T> {
    pub f: T,
    pub budget: u32,
    pub injected: u32,
    pub fail_reads: bool,
    pub fail_writes: bool,
    pub fail_seeks: bool,
    pub fail_flush: bool,
}

impl<T> FaultyFile<T> {
    fn fault(&mut self, enabled: bool) -> bool {
        if !enabled || self.budget == 0 {
            return false;
        }
        let b: bool = kani::any();
        if b {
            self.budget -= 1;
            self.injected += 1;
        }
        b
    }
}
impl<T: Read> Read for FaultyFile<T> {
    fn read(&mut self, buf: &mut [u8]) -> io::Result<usize> {
        if self.fault(self.fail_reads) {
            return Err(io::Error::from(io::ErrorKind::Other));
        }
        self.f.read(buf)
    }
}
impl<T: Write> Write for FaultyFile<T> {
    fn write(&mut self, buf: &[u8]) -> io::Result<usize> {
        if self.fault(self.fail_writes) {
            return Err(io::Error::from(io::ErrorKind::Other));
        }
        self.f.write(buf)
    }
    fn flush(&mut self) -> io::Result<()> {
        if self.fault(self.fail_flush) {
            return Err(io::Error::from(io::ErrorKind::Other));
        }
        self.f.flush()
    }
}
impl<T: Seek> Seek for FaultyFile<T> {
    fn seek(&mut self, pos: SeekFrom) -> io::Result<u64> {
        if self.fault(self.fail_seeks) {
            return Err(io::Error::from(io::ErrorKind::Other));
        }
        self.f.seek(pos)
    }
}

/// Replacement for `std::fmt::format`: error *messages* are not part of any
/// property, only `ErrorKind`s are.
pub fn stub_format(_args: std::fmt::Arguments<'_>) -> String {
    String::new()
}

/// Replacement for `std::io::copy` (used by `SectorInit::Zero`): same
/// contract (read until EOF, write everything, retry on `Interrupted`), but
/// through a plain 512-byte stack buffer instead of std's `BorrowedBuf`
/// machinery, which costs the solver gigabytes.
pub fn stub_io_copy<R: Read + ?Sized, W: Write + ?Sized>(r: &mut R, w: &mut W) -> io::Result<u64> {
    let mut buf = [0u8; 512];
    let mut total: u64 = 0;
    loop {
        let n = match r.read(&mut buf) {
            Ok(n) => n,
            Err(e) if e.kind() == io::ErrorKind::Interrupted => continue,
            Err(e) => return Err(e),
        };
        if n == 0 {
            return Ok(total);
        }
        w.write_all(&buf[..n])?;
        total += n as u64;
    }
}

/// Same result as `v.resize(n, val)` for n <= 64, through loops with a fixed
/// bound instead of an allocation of symbolic size (cache harnesses only).
pub fn vec_resize(v: &mut Vec<u8>, n: usize, val: u8) {
    kani::assume(n <= 64);
    let old = v.len();
    let mut nv: Vec<u8> = Vec::with_capacity(64);
    let mut i = 0;
    while i < 64 {
        if i < n {
            nv.push(if i < old { v[i] } else { val });
        }
        i += 1;
    }
    *v = nv;
}

/// Replacement for `OsStr::to_str` in harnesses that pass `&str` literals as
/// paths: those are valid UTF-8 by construction, and std's validation loop
/// over a string constant is unwound to the bound by CBMC on every call.
pub fn stub_osstr_to_str(s: &std::ffi::OsStr) -> Option<&str> {
    Some(unsafe { std::str::from_utf8_unchecked(s.as_encoded_bytes()) })
}
