#![allow(dead_code)]
use super::*;
pub(crate) const MIN: usize = STREAM_BUFFER_MIN;
pub(crate) const GROWTH: usize = STREAM_BUFFER_GROWTH_FACTOR;
pub(crate) fn mk(data: Vec<u8>, pos: usize, cap: usize, max_size: usize) -> StreamBuffer {
    StreamBuffer { data, pos, cap, max_size }
}
pub(crate) fn data(b: &StreamBuffer) -> &Vec<u8> { &b.data }
pub(crate) fn pos(b: &StreamBuffer) -> usize { b.pos }
pub(crate) fn cap(b: &StreamBuffer) -> usize { b.cap }
pub(crate) fn max_size(b: &StreamBuffer) -> usize { b.max_size }
