#![allow(dead_code)]
use super::*;
pub(crate) fn mk<F>(allocator: Allocator<F>, dir_entries: Vec<DirEntry>, dir_start_sector: u32) -> Directory<F> {
    Directory { allocator, dir_entries, dir_start_sector }
}
pub(crate) fn allocator<F>(d: &Directory<F>) -> &Allocator<F> { &d.allocator }
pub(crate) fn allocator_mut<F>(d: &mut Directory<F>) -> &mut Allocator<F> { &mut d.allocator }
pub(crate) fn dir_entries<F>(d: &Directory<F>) -> &Vec<DirEntry> { &d.dir_entries }
pub(crate) fn dir_entries_mut<F>(d: &mut Directory<F>) -> &mut Vec<DirEntry> { &mut d.dir_entries }
pub(crate) fn dir_start_sector<F>(d: &Directory<F>) -> u32 { d.dir_start_sector }
pub(crate) fn validate<F>(d: &Directory<F>, v: Validation) -> io::Result<()> { d.validate(v) }
pub(crate) fn allocate_dir_entry<F: Write + Seek>(d: &mut Directory<F>) -> io::Result<u32> { d.allocate_dir_entry() }
pub(crate) fn free_dir_entry<F: Write + Seek>(d: &mut Directory<F>, id: u32) -> io::Result<()> { d.free_dir_entry(id) }
pub(crate) fn write_dir_entry<F: Write + Seek>(d: &mut Directory<F>, id: u32) -> io::Result<()> { d.write_dir_entry(id) }
