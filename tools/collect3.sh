#!/bin/bash
# usage: collect3.sh C09 ...   -- confirms sub-agent round-3 mutants in a scratch worktree and copies the confirmed ones to seeded/
export CARGO_NET_OFFLINE=true
for P in "$@"; do
  WT=/tmp/wt3_$P
  n=3
  for X in A B; do
    d=$WT/_out/$X
    [ -f $d/patch.diff ] || { echo "$P $X missing"; n=$((n+1)); continue; }
    V=/tmp/mv3_$P$X
    git -C /repo worktree remove --force $V 2>/dev/null
    git -C /repo worktree add --detach $V HEAD >/dev/null 2>&1
    ( cd $V
      if ! git apply --check $d/patch.diff 2>/dev/null; then echo "$P $X APPLY-FAIL"; exit; fi
      git apply $d/patch.diff
      suite=$(cargo test --offline 2>&1 | grep -E "^test result" | awk '{p+=$4; f+=$6} END{print p+0"p/"f+0"f"}')
      cp $d/demo.rs tests/demo.rs
      with=$(timeout 900 cargo test --offline --test demo 2>&1 | grep -E "^test result" | awk '{print $4"p/"$6"f"}')
      git checkout -q -- src
      without=$(timeout 900 cargo test --offline --test demo 2>&1 | grep -E "^test result" | awk '{print $4"p/"$6"f"}')
      echo "$P $X -> $P-$n suite=$suite with=$with without=$without"
      case "$suite:$with:$without" in
        *p/0f:*p/0f:*) echo "   NOT CONFIRMED (demo passes with patch)";;
        *p/0f:*:*p/0f) if [ -n "$with" ] && [ -n "$without" ]; then
             mkdir -p /verif/seeded/$P-$n; cp $d/patch.diff $d/demo.rs /verif/seeded/$P-$n/
             python3 - $d/meta.json /verif/seeded/$P-$n/meta.json "$suite" "$with" "$without" <<'PY'
import json,sys
try: m=json.load(open(sys.argv[1]))
except Exception as e: m={"summary":"(meta.json of the sub-agent unreadable: %s)"%e}
m["confirmed"]={"suite_with_patch":sys.argv[3],"demo_with_patch":sys.argv[4],"demo_without_patch":sys.argv[5],"how":"tools/collect3.sh: scratch worktree of /repo HEAD; cargo test --offline (whole suite) with the patch; cargo test --test demo with and without the patch","round":3}
json.dump(m,open(sys.argv[2],"w"),indent=1)
PY
             echo "   confirmed -> seeded/$P-$n"; fi;;
        *) echo "   NOT CONFIRMED";;
      esac
    )
    git -C /repo worktree remove --force $V
    n=$((n+1))
  done
done
