#!/bin/bash
# usage: probe.sh <crate_dir> <timeout_s> harness...   (logs: /tmp/kp_<h>.log), at most $PAR (default 10) at a time
C=$1; T=$2; shift 2
cd $C
run1() {
  h=$1
  q=$(case $h in dir_rm_*|dir_ins_*|dir_look_*) echo src/internal/verif/h_dir.rs;; cache_c_*|cache_p_*|cache_f_*) echo src/internal/verif/h_cache.rs;; *) grep -lE "fn $h\(\)|^[a-z_0-9]+!\( *$h *[,)]" src/internal/verif/*.rs | head -1;; esac | xargs basename | sed "s/\.rs$//")
  (ulimit -v 25000000; timeout $T env CARGO_NET_OFFLINE=true cargo kani -Z stubbing -Z unstable-options --no-memory-safety-checks --no-assertion-reach-checks --harness internal::verif::$q::$h --exact --target-dir ../t_$h --cbmc-args --max-field-sensitivity-array-size ${FS:-4096} > /tmp/kp_$h.log 2>&1; rm -rf ../t_$h)
}
export -f run1; export T
printf "%s\n" "$@" | xargs -P ${PAR:-10} -I{} bash -c 'run1 {}'
