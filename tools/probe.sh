#!/bin/bash
# usage: probe.sh <crate_dir> <timeout_s> harness...   (logs: /tmp/kp_<h>.log)
C=$1; T=$2; shift 2
cd $C
for h in "$@"; do
  q=$(grep -lE "fn $h\(\)|^[a-z_0-9]+!\( *$h *[,)]" src/internal/verif/*.rs | head -1 | xargs basename | sed "s/\.rs$//")
  (ulimit -v 25000000; timeout $T env CARGO_NET_OFFLINE=true cargo kani -Z stubbing --no-memory-safety-checks --harness internal::verif::$q::$h --exact --target-dir ../t_$h > /tmp/kp_$h.log 2>&1; rm -rf ../t_$h) &
done
wait
