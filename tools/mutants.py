#!/usr/bin/env python3
"""Applies seeded changes to /repo one at a time, runs checks, reverts.
usage: mutants.py [--harness REGEX | --props C01,C07 | --own] id...
  --own      run the quick check of the property the mutant was made for (default)
  --props    run the quick checks of these properties
  --harness  run only the registered harnesses matching REGEX (through the runner machinery)
Results are appended to build/mutants.jsonl.  /repo is always restored."""
import json, os, re, subprocess, sys, time
VERIF = os.path.dirname(os.path.dirname(os.path.abspath(__file__)))
sys.path.insert(0, VERIF)

def sh(cmd, **kw):
    return subprocess.run(cmd, shell=True, capture_output=True, text=True, **kw)

def main():
    args = sys.argv[1:]
    mode = "own"; props = []; hre = None; ids = []
    i = 0
    while i < len(args):
        if args[i] == "--harness": hre = args[i+1]; mode = "harness"; i += 2
        elif args[i] == "--props": props = args[i+1].split(","); mode = "props"; i += 2
        elif args[i] == "--own": mode = "own"; i += 1
        else: ids.append(args[i]); i += 1
    assert sh("git -C /repo status --porcelain -- src").stdout.strip() == "", "/repo has local changes"
    out = open(os.path.join(VERIF, "build", "mutants.jsonl"), "a")
    for mid in ids:
        d = os.path.join(VERIF, "seeded", mid)
        patch = None
        for cand in ("patch_rebased.diff", "patch.diff"):
            if os.path.exists(os.path.join(d, cand)):
                patch = os.path.join(d, cand); break
        if os.environ.get("MUT_PATCH"): patch = os.path.join(d, os.environ["MUT_PATCH"])
        r = sh("git -C /repo apply %s" % patch)
        rec = {"mutant": mid, "patch": os.path.basename(patch), "at": time.strftime("%H:%M:%S"), "runs": []}
        if r.returncode != 0:
            rec["error"] = "patch does not apply: " + r.stderr[-200:]
            print(mid, "APPLY-FAIL"); out.write(json.dumps(rec) + "\n"); out.flush(); continue
        try:
            if mode == "harness":
                p = sh("cd %s && python3 tools/runall.py --par 8 '%s'" % (VERIF, hre))
                lines = [l for l in p.stdout.split("\n") if l.strip()]
                failed = [l.split()[0] for l in lines if len(l.split()) > 1 and l.split()[1] == "failed"]
                inconc = [l.split()[0] for l in lines if len(l.split()) > 1 and l.split()[1] == "inconclusive"]
                rec["runs"].append({"harness_re": hre, "failed": failed, "inconclusive": inconc, "lines": lines[-40:]})
                print(mid, "harness", hre, "failed:", failed, "inconclusive:", inconc, flush=True)
            else:
                pl = props if mode == "props" else [mid.split("-")[0] if not mid.startswith("R-") else None]
                for pr in pl:
                    if pr is None: continue
                    t0 = time.time()
                    p = sh("cd %s && ./check %s --tier quick" % (VERIF, pr))
                    viol = [l for l in p.stdout.split("\n") if l.startswith("VIOLATION") or l.startswith("   ")]
                    inc = [l for l in p.stdout.split("\n") if l.startswith("INCONCLUSIVE")]
                    rec["runs"].append({"property": pr, "exit": p.returncode, "violation_lines": viol[:12], "inconclusive": inc[:6], "wall_s": round(time.time() - t0)})
                    print(mid, pr, "exit", p.returncode, viol[:3], inc[:2], flush=True)
        finally:
            sh("git -C /repo checkout -- .")
        out.write(json.dumps(rec) + "\n"); out.flush()
main()
