#!/bin/bash
# kill cbmc processes of the given harness names (never use pkill -f)
for h in "$@"; do ps -eo pid,args | grep "[c]bmc " | grep "/t_$h/" | awk '{print $1}' | xargs -r kill; done
