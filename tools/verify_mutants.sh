#!/bin/bash
# Confirms each sub-agent mutant in a scratch worktree of /repo HEAD:
# suite passes with patch, demo fails with patch, demo passes without.
# usage: verify_mutants.sh <outfile> [ids...]
OUT=$1; shift
WT=/tmp/mutverify
export CARGO_NET_OFFLINE=true
git -C /repo worktree remove --force $WT 2>/dev/null
git -C /repo worktree add --detach $WT HEAD >/dev/null 2>&1
cd $WT
for d in "$@"; do
  id=$(basename $(dirname $(dirname $d)))-$(basename $d)
  git checkout -q -- . ; rm -f tests/demo.rs
  if ! git apply --check $d/patch.diff 2>/dev/null; then echo "$id APPLY-FAIL" >> $OUT; continue; fi
  git apply $d/patch.diff
  suite=$(cargo test --offline 2>&1 | grep -E "^test result" | awk '{f+=$6} END{print f+0}')
  cp $d/demo.rs tests/demo.rs
  with=$(timeout 600 cargo test --offline --test demo 2>&1 | grep -E "^test result" | awk '{print $4"p/"$6"f"}')
  git checkout -q -- src
  without=$(timeout 600 cargo test --offline --test demo 2>&1 | grep -E "^test result" | awk '{print $4"p/"$6"f"}')
  rm -f tests/demo.rs
  echo "$id suite_failed=$suite with=$with without=$without" >> $OUT
done
cd / ; git -C /repo worktree remove --force $WT
echo DONE >> $OUT
