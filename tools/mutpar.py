#!/usr/bin/env python3
"""Runs seeded changes in parallel, each on its own scratch copy of /repo (VERIF_REPO), so /repo is never touched.
usage: mutpar.py [--par N] [--props C01,C02 | --own] [--tier quick] id...
Per mutant: build/mutants/<id>.<prop>.log ; summary appended to build/mutpar.jsonl"""
import json, os, shutil, subprocess, sys, time
from concurrent.futures import ThreadPoolExecutor
VERIF = os.path.dirname(os.path.dirname(os.path.abspath(__file__)))

def sh(cmd, **kw):
    return subprocess.run(cmd, shell=True, capture_output=True, text=True, **kw)

def one(mid, props, tier, mem, procs):
    d = os.path.join(VERIF, "seeded", mid)
    patch = None
    for cand in ("patch_rebased.diff", "patch.diff"):
        if os.path.exists(os.path.join(d, cand)):
            patch = os.path.join(d, cand); break
    if os.environ.get("MUT_PATCH"): patch = os.path.join(d, os.environ["MUT_PATCH"])
    repo = "/tmp/mrepo_" + mid
    shutil.rmtree(repo, ignore_errors=True)
    sh("rsync -a --exclude target /repo/ %s/" % repo)
    rec = {"mutant": mid, "patch": os.path.basename(patch), "at": time.strftime("%H:%M:%S"), "runs": []}
    r = sh("git -C %s apply %s" % (repo, patch))
    if r.returncode != 0:
        rec["error"] = "patch does not apply: " + r.stderr[-200:]
        shutil.rmtree(repo, ignore_errors=True)
        return rec
    os.makedirs(os.path.join(VERIF, "build", "mutants"), exist_ok=True)
    if not props:
        meta = json.load(open(os.path.join(d, "meta.json")))
        props = [x for x in str(meta.get("property", mid.split("-")[0])).replace(",", "/").replace(" ", "").split("/") if x.startswith("C")]
    for pr in props:
        t0 = time.time()
        only = PLAN.get(mid, {}).get(pr) if USE_PLAN else None
        mtier = tier
        if only and only.startswith("thorough:"):
            mtier, only = "thorough", only[len("thorough:"):]
        env = dict(os.environ, VERIF_REPO=repo, **({"VERIF_ONLY": only} if only else {}), VERIF_MEM_GB=str(mem), VERIF_PROCS=str(procs),
                   VERIF_EVIDENCE_DIR="/tmp/mev_" + mid, VERIF_TMP="/tmp", VERIF_FAIL_FAST="1", VERIF_LOGS_DIR="/tmp/mlogs_" + mid)
        p = subprocess.run("cd %s && ./check %s --tier %s" % (VERIF, pr, mtier), shell=True, capture_output=True, text=True, env=env)
        open(os.path.join(VERIF, "build", "mutants", "%s.%s.log" % (mid, pr)), "w").write(p.stdout + "\n--- stderr\n" + p.stderr[-3000:])
        lines = p.stdout.split("\n")
        viol = [l for l in lines if l.startswith("VIOLATION") or l.startswith("   ")]
        inc = [l for l in lines if l.startswith("INCONCLUSIVE")]
        rec["runs"].append({"property": pr, "only": only, "tier": mtier, "exit": p.returncode, "violation_lines": viol[:12], "inconclusive": inc[:6], "wall_s": round(time.time() - t0)})
    shutil.rmtree(repo, ignore_errors=True)
    shutil.rmtree("/tmp/mev_" + mid, ignore_errors=True)
    shutil.rmtree("/tmp/mlogs_" + mid, ignore_errors=True)
    return rec

PLAN = {}
USE_PLAN = False
def main():
    global PLAN, USE_PLAN
    args = sys.argv[1:]
    if "--plan" in args:
        args.remove("--plan"); USE_PLAN = True
        PLAN = json.load(open(os.path.join(VERIF, "seeded", "plan.json")))
    par = 3; props = []; ids = []; tier = "quick"
    i = 0
    while i < len(args):
        if args[i] == "--par": par = int(args[i+1]); i += 2
        elif args[i] == "--props": props = args[i+1].split(","); i += 2
        elif args[i] == "--tier": tier = args[i+1]; i += 2
        elif args[i] == "--own": i += 1
        else: ids.append(args[i]); i += 1
    mem = int(50 / par); procs = max(2, int(15 / par))
    out = open(os.path.join(VERIF, "build", "mutpar.jsonl"), "a")
    with ThreadPoolExecutor(par) as ex:
        futs = [ex.submit(one, m, list(props), tier, mem, procs) for m in ids]
        for f in futs:
            try:
                rec = f.result()
            except Exception as e:
                rec = {"error": repr(e)}
            out.write(json.dumps(rec) + "\n"); out.flush()
            print(rec.get("mutant"), rec.get("error", ""), [(r["property"], r["exit"], r["wall_s"], (r["violation_lines"] or r["inconclusive"] or [""])[0][:110]) for r in rec.get("runs", [])], flush=True)
main()
