#!/usr/bin/env python3
"""Summarises verdicts stored in build/cache for the CURRENT tree (keys recomputed)."""
import os, sys, json, re
sys.path.insert(0, os.path.dirname(os.path.dirname(os.path.abspath(__file__))))
from vlib import registry, kani, overlay
_roots = []
for v in registry.VARIANTS:
    r, c, i = overlay.build(**registry.VARIANTS[v]); _roots.append(r); kani.register_overlay(v, c)
pat = sys.argv[1] if len(sys.argv) > 1 else "."
rows = []
for h, hs in registry.H.items():
    if not re.search(pat, h): continue
    flags = (hs.get("fs", 4096), False, hs.get("extra"))
    cp = kani.cache_path(h, hs.get("variant", "default"), flags)
    r = kani.cache_load(cp)
    if r is None:
        rows.append((h, "-", "", "")); continue
    fc = sorted(set(x["description"] for x in r.failed))[:2]
    bad = [d for d, st in r.covers.items() if st != "SATISFIED"]
    rows.append((h, r.status, "%.0fs" % r.wall_s, (str(fc) if fc else "") + (" VACUOUS " + str(bad) if bad else "")))
for r in rows: print("%-34s %-12s %-7s %s" % r)
st = {}
for r in rows: st[r[1]] = st.get(r[1], 0) + 1
print(st)

for r in _roots: overlay.cleanup(r)
