#!/usr/bin/env python3
"""Runs a set of registered harnesses through the real runner machinery
(overlay from /repo, verdict cache) and prints a status table.
usage: runall.py [--par N] [--scale F] [name-regex ...]"""
import os, re, sys, time, shutil, json
import concurrent.futures as cf
sys.path.insert(0, os.path.dirname(os.path.dirname(os.path.abspath(__file__))))
from vlib import registry, overlay, kani, runner

def main():
    args = sys.argv[1:]
    par = 10; scale = 1.0; pats = []; excl = None; quick = False
    i = 0
    while i < len(args):
        if args[i] == "--par": par = int(args[i+1]); i += 2
        elif args[i] == "--scale": scale = float(args[i+1]); i += 2
        elif args[i] == "--exclude": excl = args[i+1]; i += 2
        elif args[i] == "--quick": quick = True; i += 1
        else: pats.append(args[i]); i += 1
    names = [n for n in registry.H if (not pats or any(re.search(p, n) for p in pats)) and not (excl and re.search(excl, n))]
    if quick:
        qs = set(h for l in registry.QUICK.values() for h in l)
        names = [n for n in names if n in qs]
    variants = {}
    for n in names:
        v = registry.H[n].get("variant", "default")
        if v not in variants:
            root, crate, info = overlay.build(**registry.VARIANTS[v])
            variants[v] = (root, crate)
            kani.register_overlay(v, crate)
    logs = os.path.join(overlay.VERIF, "build", "logs", "runall"); os.makedirs(logs, exist_ok=True)
    sched = runner.MemSched(float(os.environ.get("VERIF_MEM_GB", "50")), par)
    out = {}
    def job(h):
        hs = registry.H[h]
        vkey = hs.get("variant", "default"); flags = (hs.get("fs", 4096), False, hs.get("extra"))
        cp = kani.cache_path(h, vkey, flags)
        c = kani.cache_load(cp)
        if c is not None: return c
        if os.environ.get("VERIF_DRY"):
            r = kani.Result(h); r.reason = "not run (dry)"; return r
        root, crate = variants[vkey]
        gb = sched.acquire(hs.get("mem", 8))
        try:
            r = kani.run_harness(crate, os.path.join(root, "t_" + h), h, int(max(1200, hs.get("timeout", 300)) * scale), hs.get("mem", 8) * 2.5,
                                 os.path.join(logs, h + ".log"), extra=hs.get("extra"), fs=hs.get("fs", 4096))
            kani.cache_store(cp, r)
            return r
        finally:
            sched.release(gb); shutil.rmtree(os.path.join(root, "t_" + h), ignore_errors=True)
    try:
        with cf.ThreadPoolExecutor(max_workers=par + 4) as ex:
            futs = {ex.submit(job, h): h for h in names}
            for f in cf.as_completed(futs):
                h = futs[f]; r = f.result(); out[h] = r
                fc = sorted(set(x["description"] for x in r.failed))[:3]
                bad = [d for d, st in r.covers.items() if st != "SATISFIED"]
                print("%-36s %-12s symex=%-8s wall=%-6.0f %s %s %s%s" % (h, r.status, r.symex_s, r.wall_s, r.reason, fc or "", ("VACUOUS " + str(bad)) if bad else "", " (cached)" if r.cached else ""), flush=True)
    finally:
        for root, crate in variants.values(): overlay.cleanup(root)
    json.dump({h: r.to_json() for h, r in out.items()}, open(os.path.join(logs, "summary-%d.json" % int(time.time())), "w"), indent=1)
main()
