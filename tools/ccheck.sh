#!/bin/bash
# quick compile check of the overlay (no codegen); prints errors only
cd $1 && CARGO_NET_OFFLINE=true cargo kani -Z stubbing -Z unstable-options --no-codegen --target-dir ../t_cc 2>&1 | grep -E "^error" -A12 | head -${2:-40}
