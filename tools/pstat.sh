#!/bin/bash
for f in /tmp/kp_*.log; do h=$(basename $f .log); h=${h#kp_}; v=$(grep -aE "^VERIFICATION" $f | head -1); s=$(grep -aE "^Runtime Symex" $f | head -1 | cut -c1-40); t=$(grep -aE "^Verification Time" $f | cut -c1-40); fc=$(grep -a "^Failed Checks" $f | sort | uniq -c | head -4 | cut -c1-150 | tr '\n' ';'); e=$(grep -aE "^error" $f | head -2 | cut -c1-200); echo "$h | $v | $s | $t | $fc $e"; done
ps -eo etimes,rss,args | grep -E "[c]bmc " | awk '{printf "%ss %.1fGB ", $1,$2/1e6; for(i=3;i<=NF;i++) if ($i ~ /verif/) {print substr($i,1,120); break}}'
