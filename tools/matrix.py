#!/usr/bin/env python3
"""Builds seeded/CATCH_MATRIX.md from build/mutpar.jsonl (latest record per seeded change and property)."""
import json, os, re, sys
VERIF = os.path.dirname(os.path.dirname(os.path.abspath(__file__)))
recs = {}
for fn in ("mutpar.jsonl",):
    p = os.path.join(VERIF, "build", fn)
    if not os.path.exists(p): continue
    for l in open(p):
        try: r = json.loads(l)
        except Exception: continue
        if not r.get("mutant"): continue
        for run in r.get("runs", []):
            recs[(r["mutant"], run["property"])] = (r, run)
        if r.get("error"): recs[(r["mutant"], "-")] = (r, {"property": "-", "exit": None, "violation_lines": [], "inconclusive": [r["error"]], "wall_s": 0})
notes = {}
np = os.path.join(VERIF, "seeded", "notes.json")
if os.path.exists(np): notes = json.load(open(np))
rows = []
ids = sorted(d for d in os.listdir(os.path.join(VERIF, "seeded")) if os.path.isdir(os.path.join(VERIF, "seeded", d)))
caught = missed = other = 0
for mid in ids:
    meta = json.load(open(os.path.join(VERIF, "seeded", mid, "meta.json")))
    summ = (meta.get("summary") or "").replace("|", "/").replace("\n", " ")
    summ = summ[:150] + ("..." if len(summ) > 150 else "")
    mine = [(k, v) for k, v in recs.items() if k[0] == mid]
    if not mine:
        rows.append("| %s | %s | %s | - | %s |" % (mid, meta.get("property", ""), summ, notes.get(mid, "not run in this campaign"))); other += 1; continue
    for (m, pr), (r, run) in sorted(mine):
        tn = run.get("tier", "quick")
        scope = ("subset `%s` of the %s list" % (run["only"], tn)) if run.get("only") else "full %s list" % tn
        if run["exit"] == 1:
            hs = sorted(set(re.findall(r"replay/C\d+-([\w]+)\.json", " ".join(run["violation_lines"]))))
            res = "**caught**: VIOLATION (replayed natively) by " + ", ".join("`%s`" % h for h in hs[:3]); caught += 1
        elif run["exit"] == 0:
            res = "not caught"; missed += 1
        else:
            res = "inconclusive: " + " ".join(run.get("inconclusive", []))[:160].replace("|", "/"); other += 1
        if mid in notes: res += " - " + notes[mid]
        rows.append("| %s | %s | %s | %s (%ds) | %s |" % (mid, pr, summ, scope, run.get("wall_s", 0), res))
out = ["| change | property | what was changed | run against | result |", "|---|---|---|---|---|"] + rows
out.append("")
out.append("Totals: %d caught, %d not caught, %d inconclusive / not run." % (caught, missed, other))
open(os.path.join(VERIF, "seeded", "CATCH_MATRIX.md"), "w").write("\n".join(out) + "\n")
print("\n".join(out[-3:]))
