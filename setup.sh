#!/bin/sh
# Offline setup: nothing is fetched.  Warms the Kani build of the overlay crate
# so the first check does not pay for compiling kani's std shims, and builds
# the native table generator used for the case-mapping stub.
set -e
cd "$(dirname "$0")"
export CARGO_NET_OFFLINE=true
mkdir -p build evidence
command -v cargo >/dev/null
cargo kani --version
cvc5 --version | head -1
python3 - <<'PY'
import sys, os
sys.path.insert(0, os.getcwd())
from vlib import overlay, kani
root, crate, info = overlay.build()
try:
    import subprocess
    subprocess.run(["cargo", "kani", "--only-codegen", "--target-dir", os.path.join(root, "t")], cwd=crate,
                   env=kani.ENV, stdout=subprocess.DEVNULL, stderr=subprocess.DEVNULL, timeout=900)
finally:
    overlay.cleanup(root)
print("setup ok")
PY
