"""Generates MANIFEST.json from the registry (kept valid at all times)."""
import json, os, sys
sys.path.insert(0, os.path.dirname(os.path.dirname(os.path.abspath(__file__))))
from vlib import registry

def main():
    checks = []
    for pid in sorted(registry.PROPS):
        p = registry.PROPS[pid]
        checks.append({
            "property_id": pid,
            "quick_cmd": "./check %s --tier quick" % pid,
            "thorough_cmd": "./check %s --tier thorough" % pid,
            "evidence_file": "/verif/evidence/%s.json" % pid,
            "replay_cmd_template": "./check %s --replay {path}" % pid,
            "engine": p.get("engine", "kani-cbmc"),
            "level_claimed": {"category": p["level"], "text": p.get("level_text", ""), "design_ref": p.get("design_ref", "DESIGN.md section 6")},
            "level_note": p.get("level_note", ""),
            "technique": p.get("technique", "bounded model checking of the compiled crate functions (Kani/CBMC, SAT) over symbolic inputs and pre-states"),
        })
    na = [{"property_id": k, "reason": v} for k, v in sorted(registry.NOT_APPLICABLE.items()) if k not in registry.PROPS]
    m = {
        "version": 1,
        "setup_cmd": "./setup.sh",
        "hooks": {
            "guard": "cfg(kani)",
            "enable": "no hooks are committed to /repo: every check copies /repo's current working tree to a scratch directory under /tmp, appends `#[cfg(kani)] mod ...;` lines plus the harness files from /verif/harness, applies the counted rewrites listed in evidence.coverage.overlay, and runs `cargo kani` there (cfg(kani) is set only by Kani)",
            "baseline_off_cmd": "cd /repo && CARGO_NET_OFFLINE=true cargo test --workspace --no-fail-fast --offline",
            "source_commits": [],
            "add_only": True,
        },
        "engines": registry.ENGINES,
        "checks": checks,
        "not_applicable": na,
        "notes": registry.NOTES,
    }
    json.dump(m, open(os.path.join(os.path.dirname(os.path.dirname(os.path.abspath(__file__))), "MANIFEST.json"), "w"), indent=1)

if __name__ == "__main__":
    main()
