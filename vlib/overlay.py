"""Builds the scratch overlay: a copy of /repo's *current working tree* with the
harness tree dropped in and a few mechanical, counted rewrites applied.
Nothing is written to /repo.  See DESIGN.md section 3."""
import os
import re
import shutil
import subprocess
import tempfile

VERIF = os.path.dirname(os.path.dirname(os.path.abspath(__file__)))
REPO = os.environ.get("VERIF_REPO", "/repo")


class Inconclusive(Exception):
    pass


# module file (relative to src/internal) -> shim file in harness/
SHIMS = {
    "sector.rs": "acc_sector.rs",
    "alloc.rs": "acc_alloc.rs",
    "directory.rs": "acc_directory.rs",
    "minialloc.rs": "acc_minialloc.rs",
    "stream.rs": "acc_stream.rs",
    "stream_buffer.rs": "acc_stream_buffer.rs",
    "timestamp.rs": "acc_timestamp.rs",
    "chain.rs": "acc_chain.rs",
    "minichain.rs": "acc_minichain.rs",
    "path.rs": "acc_path.rs",
}

FNV_USE = "use fnv::FnvHashSet;"
FNV_FILES = ["lib.rs", "internal/alloc.rs", "internal/directory.rs", "internal/minialloc.rs"]


def _balanced(s, i):
    """s[i] == '(' ; returns index of matching ')'."""
    depth = 0
    j = i
    while j < len(s):
        c = s[j]
        if c == "(":
            depth += 1
        elif c == ")":
            depth -= 1
            if depth == 0:
                return j
        j += 1
    raise Inconclusive("unbalanced parenthesis in rewrite")


def rewrite_error_new(text, needle):
    """needle(KIND, payload) -> <needle minus ::new>::from(KIND). Returns (text, count)."""
    out = []
    i = 0
    n = 0
    while True:
        k = text.find(needle, i)
        if k < 0:
            out.append(text[i:])
            break
        op = k + len(needle) - 1
        cl = _balanced(text, op)
        inner = text[op + 1:cl]
        depth = 0
        comma = None
        for idx, c in enumerate(inner):
            if c in "([{":
                depth += 1
            elif c in ")]}":
                depth -= 1
            elif c == "," and depth == 0:
                comma = idx
                break
        if comma is None:
            raise Inconclusive("Error::new site without payload")
        kind = inner[:comma].strip()
        out.append(text[i:k])
        out.append(needle[: -len("new(")] + "from(" + kind + ")")
        i = cl + 1
        n += 1
    return "".join(out), n


def build(extra_rewrites=None, lock_overlay=False, buffer_min=None, quiet=True, for_replay=False):
    """Returns (scratch_root, crate_dir, info dict)."""
    root = tempfile.mkdtemp(prefix="verif-scratch-", dir=os.environ.get("VERIF_TMP", "/tmp"))
    crate = os.path.join(root, "crate")
    os.makedirs(crate)
    shutil.copytree(os.path.join(REPO, "src"), os.path.join(crate, "src"))
    for f in ("Cargo.toml", "Cargo.lock"):
        shutil.copy(os.path.join(REPO, f), os.path.join(crate, f))
    os.makedirs(os.path.join(crate, "benches"))
    with open(os.path.join(crate, "benches", "benchmark.rs"), "w") as fh:
        fh.write("fn main() {}\n")
    info = {"rewrites": {}, "repo_head": _head(), "repo_dirty": _dirty()}
    src = os.path.join(crate, "src")
    # 1. harness tree
    hdst = os.path.join(src, "internal", "verif")
    shutil.copytree(os.path.join(VERIF, "harness"), hdst)
    with open(os.path.join(src, "internal", "mod.rs"), "a") as fh:
        fh.write('\n#[cfg(kani)]\n#[path = "verif/mod.rs"]\npub(crate) mod verif;\n')
    for modfile, shim in SHIMS.items():
        p = os.path.join(src, "internal", modfile)
        if not os.path.exists(p):
            raise Inconclusive("module file missing: " + modfile)
        with open(p, "a") as fh:
            fh.write('\n#[cfg(kani)]\n#[path = "verif/%s"]\npub(crate) mod vacc;\n' % shim)
    # 1z. which RwLock the harnesses name (std's, or the instrumented one of the `lock` variant)
    with open(os.path.join(hdst, "lockty.rs"), "w") as fh:
        if lock_overlay:
            fh.write("pub use super::vlock::RwLock;\npub fn live_guards<T>(l: &RwLock<T>) -> u32 { l.live_guards() }\n")
        else:
            fh.write("pub use std::sync::RwLock;\npub fn live_guards<T>(_l: &RwLock<T>) -> u32 { 0 }\n")
    # 1a. generated directory shape instances
    from . import shapes
    shapes.write_rs(os.path.join(hdst, "h_dir_gen.rs"))
    from . import seqs
    seqs.write_rs(os.path.join(hdst, "h_cache_gen.rs"))
    # 1b. case-mapping table = the real cfb_uppercase_char evaluated natively on SIGMA
    info["uptable"] = gen_uptable(src, hdst, root)
    # 2. error macros: payload-free errors (KIND taken from the real file)
    p = os.path.join(src, "internal", "macros.rs")
    text = open(p).read()
    text, n = rewrite_error_new(text, "::std::io::Error::new(")
    if n != 8:
        raise Inconclusive("macros.rs: expected 8 Error::new sites, found %d" % n)
    open(p, "w").write(text)
    info["rewrites"]["macros.rs Error::new->Error::from(kind)"] = n
    p = os.path.join(src, "internal", "chain.rs")
    text = open(p).read()
    text, n = rewrite_error_new(text, "io::Error::new(")
    info["rewrites"]["chain.rs Error::new->Error::from(kind)"] = n
    open(p, "w").write(text)
    # 3. FnvHashSet -> Vec-backed set
    cnt = 0
    for rel in FNV_FILES:
        p = os.path.join(src, rel)
        text = open(p).read()
        c = text.count(FNV_USE)
        if c != 1:
            raise Inconclusive("%s: expected 1 '%s', found %d" % (rel, FNV_USE, c))
        text = text.replace(
            FNV_USE,
            "#[cfg(not(kani))] use fnv::FnvHashSet; #[cfg(kani)] use crate::internal::verif::vecset::FnvHashSet;",
        )
        open(p, "w").write(text)
        cnt += c
    info["rewrites"]["FnvHashSet->VecSet"] = cnt
    # 4. optional: scaled buffer constant (C06 cache harnesses)
    if buffer_min is not None:
        p = os.path.join(src, "internal", "stream_buffer.rs")
        text = open(p).read()
        pat = re.compile(r"const STREAM_BUFFER_MIN: usize = (\d+);")
        m = pat.findall(text)
        if len(m) != 1:
            raise Inconclusive("stream_buffer.rs: STREAM_BUFFER_MIN definition not found exactly once")
        info["rewrites"]["STREAM_BUFFER_MIN %s->%d (scaled)" % (m[0], buffer_min)] = 1
        info["buffer_min_real"] = int(m[0])
        text = pat.sub("const STREAM_BUFFER_MIN: usize = %d;" % buffer_min, text)
        # Vec::resize with a symbolic new length is an allocation of symbolic size for CBMC;
        # route the (counted) call sites through an equivalent bounded-loop helper.
        n_resize = len(re.findall(r"self\.data\.resize\(([a-z_]+), 0\);", text))
        if n_resize != 2:
            raise Inconclusive("stream_buffer.rs: expected 2 self.data.resize(.., 0) sites, found %d" % n_resize)
        text = re.sub(r"self\.data\.resize\(([a-z_]+), 0\);", r"crate::internal::verif::h_cache::vec_resize(&mut self.data, \1, 0);", text)
        info["rewrites"]["stream_buffer.rs Vec::resize -> bounded helper (same result)"] = n_resize
        open(p, "w").write(text)
    # 4b. cache variant: the three storage functions of stream.rs get a cfg(kani) prologue that
    # diverts to the flat byte-array model while the harness has switched it on (active under
    # Kani AND in native playback, so a replayed counterexample runs exactly what was checked)
    if buffer_min is not None:
        p = os.path.join(src, "internal", "stream.rs")
        text = open(p).read()
        n = 0
        for fn, ret, call in [
            ("read_data_from_stream", "io::Result<usize>", "model_read(minialloc, stream_id, buf_offset_from_start, buf)"),
            ("write_data_to_stream", "io::Result<()>", "model_write(minialloc, stream_id, buf_offset_from_start, buf)"),
            ("resize_stream", "io::Result<()>", "model_resize(minialloc, stream_id, new_stream_len)"),
        ]:
            m = re.search(r"\nfn %s<[^{]*?\) -> %s \{\n" % (fn, re.escape(ret)), text, re.S)
            if not m:
                raise Inconclusive("stream.rs: signature of %s not found for the model prologue" % fn)
            pro = "    #[cfg(kani)]\n    if crate::internal::verif::h_cache::model_on() {\n        return crate::internal::verif::h_cache::%s;\n    }\n" % call
            text = text[:m.end()] + pro + text[m.end():]
            n += 1
        open(p, "w").write(text)
        info["rewrites"]["stream.rs storage functions: cfg(kani) prologue diverting to the storage model when switched on"] = n
    # 5. optional: instrumented lock (C14)
    if lock_overlay:
        n = 0
        for rel, old, new in [
            ("lib.rs", "use std::sync::{Arc, RwLock, RwLockReadGuard, RwLockWriteGuard};",
             "use std::sync::Arc; use crate::internal::verif::vlock::{RwLock, RwLockReadGuard, RwLockWriteGuard};"),
            ("internal/entry.rs", "use std::sync::{Arc, RwLock};",
             "use std::sync::Arc; use crate::internal::verif::vlock::RwLock;"),
            ("internal/stream.rs", "use std::sync::{Arc, RwLock, Weak};",
             "use std::sync::{Arc, Weak}; use crate::internal::verif::vlock::RwLock;"),
        ]:
            p = os.path.join(src, rel)
            text = open(p).read()
            if text.count(old) < 1:
                continue  # the import line was edited: the generic pass below takes care of it
            # first occurrence = the module's own import; for a native replay build also the one of
            # its #[cfg(test)] mod, because `cargo kani playback` compiles the crate's unit tests
            open(p, "w").write(text.replace(old, new) if for_replay else text.replace(old, new, 1))
            n += 1
        # generic pass (leaves the unchanged tree's overlay byte-identical): any other mention of std's lock
        # types - an edited import list, a guard type named in a struct field - is redirected as well, so that
        # a change to the locking code meets the instrumented lock instead of a type error
        LOCKS = ("RwLock", "RwLockReadGuard", "RwLockWriteGuard")
        def _imp(m):
            names = [x.strip() for x in m.group(1).split(",") if x.strip()]
            mine = [x for x in names if x in LOCKS]
            if not mine:
                return m.group(0)
            rest = [x for x in names if x not in LOCKS]
            out = ("use std::sync::{%s}; " % ", ".join(rest)) if rest else ""
            return out + "use crate::internal::verif::vlock::{%s};" % ", ".join(mine)
        g = 0
        for dp, dn, fns in os.walk(src):
            if os.path.join("internal", "verif") in dp:
                continue
            for fn in fns:
                if not fn.endswith(".rs"):
                    continue
                fp = os.path.join(dp, fn)
                text = open(fp).read()
                if not for_replay and "#[cfg(test)]" in text:
                    head, sep, tail = text.partition("#[cfg(test)]")
                else:
                    head, sep, tail = text, "", ""
                new_head = re.sub(r"use std::sync::\{([^}]*)\};", _imp, head)
                new_head = re.sub(r"\bstd::sync::(RwLockReadGuard|RwLockWriteGuard|RwLock)\b", r"crate::internal::verif::vlock::\1", new_head)
                if new_head != head:
                    open(fp, "w").write(new_head + sep + tail)
                    g += 1
        if n + g < 3:
            raise Inconclusive("lock overlay: fewer than three files name the lock (%d + %d)" % (n, g))
        info["rewrites"]["std::sync::RwLock->instrumented lock"] = n + g
    for (rel, old, new, count) in (extra_rewrites or []):
        p = os.path.join(src, rel)
        text = open(p).read()
        if text.count(old) != count:
            raise Inconclusive("%s: extra rewrite site count %d != %d" % (rel, text.count(old), count))
        open(p, "w").write(text.replace(old, new))
    # no unsafe in the crate (justifies --no-memory-safety-checks in quick tier)
    unsafe = subprocess.run(
        ["grep", "-rnw", "unsafe", os.path.join(REPO, "src")], capture_output=True, text=True
    ).stdout.strip()
    info["unsafe_in_crate"] = bool(unsafe)
    return root, crate, info


SIGMA = ["a", "b", "z", "A", "B", "Z", "0", "_", "[", "\u00df", "\u00e9", "\u00c9", "\u1f80", "\u1f88", "\U0001d49c"]


def gen_uptable(src, hdst, root):
    """Builds a tiny native program from /repo's current path.rs (+ macros.rs,
    uppercase.txt), evaluates the real private `cfb_uppercase_char` on SIGMA and
    writes harness/uptable.rs.  The Kani stub for that function is therefore
    equal to the real function on SIGMA by construction."""
    d = os.path.join(root, "uptable")
    os.makedirs(d)
    for f in ("macros.rs", "path.rs", "uppercase.txt"):
        shutil.copy(os.path.join(src, "internal", f), os.path.join(d, f))
    with open(os.path.join(d, "path.rs"), "a") as fh:
        fh.write("\npub fn __verif_up(c: char) -> char { cfb_uppercase_char(c) }\n")
    cps = ", ".join("'\\u{%x}'" % ord(c) for c in SIGMA)
    open(os.path.join(d, "main.rs"), "w").write(
        "#![allow(dead_code, unused_macros, unused_imports)]\n#[macro_use]\nmod macros;\nmod path;\nfn main() { for c in [%s] { println!(\"{:x} {:x}\", c as u32, path::__verif_up(c) as u32); } }\n" % cps)
    p = subprocess.run(["rustc", "--edition", "2018", "-A", "warnings", "-o", os.path.join(d, "uptable"), os.path.join(d, "main.rs")],
                       capture_output=True, text=True)
    if p.returncode != 0:
        raise Inconclusive("uptable build failed: " + p.stderr[-300:])
    out = subprocess.run([os.path.join(d, "uptable")], capture_output=True, text=True).stdout.split()
    pairs = [(int(out[i], 16), int(out[i + 1], 16)) for i in range(0, len(out), 2)]
    if len(pairs) != len(SIGMA):
        raise Inconclusive("uptable output malformed")
    with open(os.path.join(hdst, "uptable.rs"), "w") as fh:
        fh.write("// generated from /repo's current cfb_uppercase_char (native run)\n#![allow(dead_code)]\n")
        fh.write("pub const SIGMA: [char; %d] = [%s];\n" % (len(SIGMA), cps))
        fh.write("pub fn table_upper(c: char) -> char {\n    match c as u32 {\n")
        for a, b in pairs:
            fh.write("        0x%x => '\\u{%x}',\n" % (a, b))
        fh.write("        _ => { kani::assume(false); c }\n    }\n}\n")
    shutil.rmtree(d, ignore_errors=True)
    return {"sigma": ["U+%04X" % ord(c) for c in SIGMA], "map": ["%x->%x" % p for p in pairs]}


def _head():
    try:
        return subprocess.run(["git", "-C", REPO, "rev-parse", "HEAD"], capture_output=True, text=True).stdout.strip()
    except Exception:
        return "?"


def _dirty():
    try:
        return bool(subprocess.run(["git", "-C", REPO, "status", "--porcelain", "--", "src"],
                                   capture_output=True, text=True).stdout.strip())
    except Exception:
        return False


def cleanup(root):
    shutil.rmtree(root, ignore_errors=True)


if __name__ == "__main__":
    r, c, i = build()
    print(r, c, i)
