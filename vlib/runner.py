"""Property runner: builds the overlay from /repo's current tree, runs the
property's Kani harnesses and SMT obligations, replays counterexamples
natively, writes evidence, prints VIOLATION / KNOWN-FINDING lines.

Exit codes: 0 held on everything explored; 1 violation (replayed natively,
not a listed known finding); 2 inconclusive (never reported as pass)."""
import concurrent.futures as cf
import json
import os
import re
import shutil
import sys
import threading
import time

from . import kani, overlay, registry

VERIF = overlay.VERIF
PREFIX_RE = re.compile(r"^((?:C\d\d)(?:/C\d\d)*):")


def load_known():
    p = os.path.join(VERIF, "known_findings.json")
    if not os.path.exists(p):
        return []
    return json.load(open(p))["findings"]


def relevant(desc, prop, hspec):
    m = PREFIX_RE.match(desc)
    if m:
        return prop in m.group(1).split("/")
    owners = hspec.get("panic_props") or hspec["props"]
    return prop in owners


def match_known(prop, harness, fc, known):
    for k in known:
        if k.get("status") != "open" or k["property"] != prop:
            continue
        mt = k["match"]
        if "description" in mt and not re.search(mt["description"], fc["description"]):
            continue
        if "function" in mt and not re.search(mt["function"], fc.get("function", "")):
            continue
        if "harness" in mt and not re.search(mt["harness"], harness):
            continue
        if "location" in mt and not re.search(mt["location"], fc.get("location", "")):
            continue
        return k
    return None


class MemSched:
    """Admission control by declared memory budget (62 GB box, no swap)."""

    def __init__(self, total_gb, max_procs):
        self.total = total_gb
        self.free = total_gb
        self.procs = max_procs
        self.cv = threading.Condition()

    def acquire(self, gb):
        gb = min(gb, self.total)
        with self.cv:
            while self.free < gb or self.procs <= 0:
                self.cv.wait()
            self.free -= gb
            self.procs -= 1
        return gb

    def release(self, gb):
        with self.cv:
            self.free += gb
            self.procs += 1
            self.cv.notify_all()


def run_property(prop, tier, seed, replay_only=None):
    t0 = time.time()
    spec = registry.PROPS[prop]
    known = load_known()
    hs = registry.harnesses_for(prop, tier)
    logs_dir = os.path.join(os.environ.get("VERIF_LOGS_DIR") or os.path.join(VERIF, "build", "logs"), prop)  # campaigns running one property twice at a time set their own
    shutil.rmtree(logs_dir, ignore_errors=True)
    os.makedirs(logs_dir, exist_ok=True)
    # order: seed permutes scheduling only
    import random
    rnd = random.Random(seed)
    if os.environ.get("VERIF_ONLY"):  # mutant campaigns: only the harnesses expected to notice the change (recorded as such in the catch matrix)
        import re as _re
        hs = [h for h in hs if _re.search(os.environ["VERIF_ONLY"], h)]
    hs = sorted(hs, key=lambda h: -registry.H[h].get("timeout", 300))
    if seed:
        rnd.shuffle(hs)
    variants = {}
    scratch = []
    results = {}
    smt_results = []
    inconclusive = []
    violations = []
    known_hits = []
    notes = []
    ov_info = {}
    try:
        for h in hs:
            v = registry.H[h].get("variant", "default")
            if v not in variants:
                try:
                    root, crate, info = overlay.build(**registry.VARIANTS[v])
                except overlay.Inconclusive as e:
                    print("INCONCLUSIVE overlay(%s): %s" % (v, e))
                    return finish(prop, tier, seed, t0, spec, {}, [], ["overlay: %s" % e], [], [], [], {}, 2)
                scratch.append(root)
                variants[v] = (root, crate)
                ov_info[v] = info
                kani.register_overlay(v, crate)
        sched = MemSched(float(os.environ.get("VERIF_MEM_GB", "52")), int(os.environ.get("VERIF_PROCS", "12")))
        scale = float(os.environ.get("VERIF_TIMEOUT_SCALE", "1"))

        stop = threading.Event()  # VERIF_FAIL_FAST=1 (mutant campaigns only): skip what has not started once a harness failed

        def job(h):
            hspec = registry.H[h]
            if stop.is_set():
                r = kani.Result(h)
                r.reason = "skipped: VERIF_FAIL_FAST and another harness already failed"
                return r
            root, crate = variants[hspec.get("variant", "default")]
            vkey = hspec.get("variant", "default")
            flags = (hspec.get("fs", 4096), tier == "thorough" and hspec.get("memsafe_thorough", False), hspec.get("extra"))
            cpath = kani.cache_path(h, vkey, flags)
            if not os.environ.get("VERIF_NO_REUSE"):
                c = kani.cache_load(cpath)
                if c is not None:
                    return c
            gb = sched.acquire(hspec.get("mem", 8))
            try:
                if stop.is_set():
                    r = kani.Result(h)
                    r.reason = "skipped: VERIF_FAIL_FAST and another harness already failed"
                    return r
                r = kani.run_harness(
                    crate, os.path.join(root, "t_" + h), h,
                    int(max(1200, hspec.get("timeout", 300)) * scale), hspec.get("mem", 8) * 2.5,  # address-space limit; declared mem = expected resident size
                    os.path.join(logs_dir, h + ".log"),
                    memsafe=(tier == "thorough" and hspec.get("memsafe_thorough", False)),
                    extra=hspec.get("extra"), fs=hspec.get("fs", 4096))
                kani.cache_store(cpath, r)
                return r
            finally:
                sched.release(gb)
                shutil.rmtree(os.path.join(root, "t_" + h), ignore_errors=True)

        with cf.ThreadPoolExecutor(max_workers=16) as ex:
            futs = {ex.submit(job, h): h for h in hs}
            smt_fut = None
            if spec.get("smt"):
                from . import smt
                smt_fut = ex.submit(smt.run_obligations, prop, spec["smt"], tier)
            for f in cf.as_completed(futs):
                h = futs[f]
                r = f.result()
                results[h] = r
                if r.status == "failed" and os.environ.get("VERIF_FAIL_FAST"):
                    stop.set()
                print("[%s] %-40s %-12s symex=%s solver=%.1fs wall=%.0fs %s%s" % (
                    prop, h, r.status, r.symex_s, r.solver_s, r.wall_s, r.reason,
                    " (verdict reused: same /repo tree + harness hash, decided %s)" % r.decided_at if r.cached else ""), flush=True)
            if smt_fut:
                smt_results = smt_fut.result()

        # --- classify
        for h, r in results.items():
            hspec = registry.H[h]
            if r.status == "inconclusive":
                inconclusive.append("%s: %s" % (h, r.reason))
                continue
            for s in hspec.get("stubs", registry.DEFAULT_STUBS):
                if not any(s in line for line in r.stubs):
                    inconclusive.append("%s: expected stub line missing: %s" % (h, s))
            bad_cov = [d for d, st in r.covers.items() if st != "SATISFIED"]
            if r.status == "success":
                if bad_cov:
                    inconclusive.append("%s: vacuity witness not satisfied: %s" % (h, bad_cov))
                if not r.covers and not hspec.get("no_cover_ok"):
                    inconclusive.append("%s: harness has no vacuity witness" % h)
                continue
            # failed
            rel = [fc for fc in r.failed if relevant(fc["description"], prop, hspec)]
            if not rel:
                notes.append("%s: failed only on checks owned by other properties: %s" % (
                    h, sorted(set(fc["description"] for fc in r.failed))))
                continue
            unmatched = []
            for fc in rel:
                k = match_known(prop, h, fc, known)
                if k:
                    known_hits.append((k, h, fc))
                else:
                    unmatched.append(fc)
            if unmatched:
                if any("unwinding assertion" in fc["description"] for fc in unmatched) and not hspec.get("unwind_is_property"):
                    inconclusive.append("%s: unwinding assertion failed (bound too small for this tree): %s" % (
                        h, [fc["location"] for fc in unmatched if "unwinding" in fc["description"]][:3]))
                    unmatched = [fc for fc in unmatched if "unwinding assertion" not in fc["description"]]
                if unmatched:
                    violations.append((h, unmatched))
        for o in smt_results:
            if o["status"] == "inconclusive":
                inconclusive.append("smt %s: %s" % (o["name"], o.get("reason", "")))
            elif o["status"] == "failed":
                fc = {"description": "smt:" + o["name"], "function": o.get("function", ""), "location": ""}
                k = match_known(prop, "smt", fc, known)
                if k:
                    known_hits.append((k, "smt", fc))
                else:
                    violations.append(("smt:" + o["name"], [dict(fc, model=o.get("model"))]))

        # --- replay violations natively before reporting them
        confirmed = []
        for h, fcs in violations:
            if h.startswith("smt:"):
                from . import smt
                ok, path = smt.replay(prop, h[4:], fcs[0].get("model"))
                if ok:
                    confirmed.append((h, fcs, path))
                else:
                    inconclusive.append("%s: counterexample did not reproduce natively (encoding suspected)" % h)
                continue
            ok, path, why = replay_harness(prop, h, fcs, logs_dir)
            if ok:
                confirmed.append((h, fcs, path))
            else:
                inconclusive.append("%s: counterexample not confirmed natively: %s" % (h, why))
        code = 0
        seen = set()
        for k, h, fc in known_hits:
            if k["id"] not in seen:
                seen.add(k["id"])
                print("KNOWN-FINDING: property=%s %s [%s]" % (prop, k["what"], k["id"]))
        for h, fcs, path in confirmed:
            print("VIOLATION property=%s replay=%s" % (prop, path))
            for fc in fcs[:5]:
                print("   %s: %s @ %s %s" % (h, fc["description"], fc.get("location", ""), fc.get("function", "")))
            code = 1
        if inconclusive and code == 0:
            code = 2
        for i in inconclusive:
            print("INCONCLUSIVE %s" % i)
        for n in notes:
            print("note: %s" % n)
        return finish(prop, tier, seed, t0, spec, results, smt_results, inconclusive, confirmed, known_hits,
                      notes, ov_info, code)
    finally:
        for r in scratch:
            overlay.cleanup(r)


def replay_harness(prop, h, fcs, logs_dir):
    """Regenerates the counterexample as a unit test (Kani concrete playback,
    inplace in a fresh scratch copy) and runs it natively against the real
    crate functions in the dev profile (and release, informational)."""
    hspec = registry.H[h]
    try:
        root, crate, _ = overlay.build(for_replay=True, **registry.VARIANTS[hspec.get("variant", "default")])
    except overlay.Inconclusive as e:
        return False, None, "overlay: %s" % e
    try:
        r = kani.run_harness(crate, os.path.join(root, "t_pb"), h, int(hspec.get("timeout", 300) * 3),
                             max(24, hspec.get("mem", 8) * 4), os.path.join(logs_dir, h + ".playback.log"),
                             playback="print", extra=hspec.get("extra"), fs=hspec.get("fs", 4096))
        if r.status != "failed":
            return False, None, "playback generation run did not fail again (%s %s)" % (r.status, r.reason)
        wanted = set(fc["description"] for fc in fcs)
        if not r.playback and hspec.get("unwind_is_property") and hspec.get("hang_replay_vals") is not None:
            # Kani prints no playback test for a failed unwinding assertion.  Where termination is the harness's
            # property and its only symbolic inputs are `hang_replay_vals` single bytes of content, the test is
            # written here: the same harness body, natively, with all-zero content.
            hname = kani.qualify(h).split("::")[-1]
            code = ("#[test]\nfn kani_concrete_playback_hang_%s() {\n    let concrete_vals: Vec<Vec<u8>> = vec![vec![0u8]; %d];\n"
                    "    kani::concrete_playback_run(concrete_vals, %s);\n}" % (hname, int(hspec["hang_replay_vals"]), hname))
            r.playback = [("synth", "unwinding assertion", "kani_concrete_playback_hang_%s" % hname, code)]
        if not r.playback:
            return False, None, "Kani printed no concrete playback test"
        # The printed unit tests are appended to the END of the module that defines the harness
        # (inplace mode would put them inside the macro that generates the harness: one copy per instance).
        modfile = kani.qualify(h).split("::")[-2] + ".rs"
        seen_tests = set()
        with open(os.path.join(crate, "src", "internal", "verif", modfile), "a") as fh:
            for kind, desc, tname, code in r.playback:
                if tname in seen_tests:
                    continue
                seen_tests.add(tname)
                fh.write("\n" + code + "\n")
        hang_is_property = bool(hspec.get("unwind_is_property")) and any("unwinding assertion" in fc["description"] for fc in fcs)
        ran, failed, out = kani.native_playback(crate, "kani_concrete_playback", timeout_s=(240 if hang_is_property else 900))
        open(os.path.join(logs_dir, h + ".native.log"), "w").write(out)
        if not ran and hang_is_property and out == "playback timeout":
            # termination is the property of this harness: the generated test runs the same body natively and
            # does not come back - the endless loop is reproduced against the real code
            rp_dir = os.path.join(os.environ.get("VERIF_EVIDENCE_DIR") or os.path.join(VERIF, "evidence"), "replay")
            os.makedirs(rp_dir, exist_ok=True)
            path = os.path.join(rp_dir, "%s-%s.json" % (prop, h))
            json.dump({"property": prop, "harness": h, "variant": hspec.get("variant", "default"), "failed_checks": fcs,
                       "wanted": sorted(wanted), "native_dev_failed_tests": [], "native_dev_panics": [],
                       "native_hang": "the generated test did not finish within 240 s natively (termination is what this harness decides)",
                       "tests": [{"file": modfile, "name": t[2], "code": t[3]} for t in r.playback][:3],
                       "how": "./check %s --replay %s" % (prop, path)}, open(path, "w"), indent=1)
            return True, path, ""
        if not ran:
            return False, None, "native playback did not run"
        if not failed:
            return False, None, "no generated test fails natively (dev profile)"
        ran_r, failed_r, out_r = kani.native_playback(crate, "kani_concrete_playback", release=True)
        # collect generated tests from the modified harness file(s)
        tests = []
        hdir = os.path.join(crate, "src", "internal", "verif")
        for fn in os.listdir(hdir):
            txt = open(os.path.join(hdir, fn), errors="replace").read()
            for m in re.finditer(r"#\[test\]\nfn (kani_concrete_playback_\w+)\(\) \{.*?\n\}", txt, re.S):
                tests.append({"file": fn, "name": m.group(1), "code": m.group(0)})
        panics = re.findall(r"panicked at (.*?):\n(.*)", out)
        rp_dir = os.path.join(os.environ.get("VERIF_EVIDENCE_DIR") or os.path.join(VERIF, "evidence"), "replay")
        os.makedirs(rp_dir, exist_ok=True)
        path = os.path.join(rp_dir, "%s-%s.json" % (prop, h))
        json.dump({
            "property": prop, "harness": h, "variant": hspec.get("variant", "default"),
            "failed_checks": fcs, "wanted": sorted(wanted),
            "native_dev_failed_tests": failed, "native_dev_panics": panics[:10],
            "native_release_failed_tests": failed_r if ran_r else None,
            "tests": [t for t in tests if any(t["name"] in f for f in failed)],
            "how": "./check %s --replay %s" % (prop, path),
        }, open(path, "w"), indent=1)
        return True, path, ""
    finally:
        overlay.cleanup(root)


def replay_file(prop, path):
    """`./check <id> --replay <file>`: re-run stored counterexample tests natively."""
    rp = json.load(open(path))
    if rp.get("kind") == "smt":
        from . import smt
        return smt.replay_file(rp)
    h = rp["harness"]
    hspec = registry.H[h]
    root, crate, _ = overlay.build(for_replay=True, **registry.VARIANTS[rp.get("variant", "default")])
    try:
        hdir = os.path.join(crate, "src", "internal", "verif")
        for t in rp["tests"]:
            with open(os.path.join(hdir, t["file"]), "a") as fh:
                fh.write("\n" + t["code"] + "\n")
        ran, failed, out = kani.native_playback(crate, "kani_concrete_playback")
        print(out[-3000:])
        if ran and failed:
            print("VIOLATION property=%s replay=%s" % (prop, path))
            return 1
        if ran:
            print("replay: stored counterexample no longer fails on this tree")
            return 0
        print("INCONCLUSIVE replay did not run")
        return 2
    finally:
        overlay.cleanup(root)


def finish(prop, tier, seed, t0, spec, results, smt_results, inconclusive, confirmed, known_hits, notes,
           ov_info, code):
    wall = time.time() - t0
    n_checks = sum(r.n_checks for r in results.values())
    covers_sat = sum(1 for r in results.values() for st in r.covers.values() if st == "SATISFIED")
    smt_ok = sum(1 for o in smt_results if o["status"] == "success")
    harness_ok = sum(1 for r in results.values() if r.status == "success")
    samples = []
    for h, r in results.items():
        hs = registry.H[h]
        samples.append({
            "harness": h, "what": hs.get("what", ""), "bounds": hs.get("bounds", ""),
            "verdict": r.status, "cbmc_checks": r.n_checks,
            "vacuity_witnesses": r.covers,
        })
    for o in smt_results:
        samples.append({"smt_obligation": o["name"], "what": o.get("what", ""), "verdict": o["status"],
                        "solvers": o.get("solvers"), "time_s": o.get("time_s")})
    functions = sorted(set(f for h in results for f in registry.H[h].get("functions", [])) |
                       set(f for o in smt_results for f in o.get("functions", [])))
    assumptions = sorted(set(a for h in results for a in registry.H[h].get("assumes", [])) |
                         set(registry.GLOBAL_ASSUMPTIONS) |
                         set(a for o in smt_results for a in o.get("assumptions", [])))
    ev = {
        "property_id": prop,
        "tier": tier,
        "seed": seed,
        "level": spec["level"],
        "wall_s": round(wall, 1),
        "violations": len(confirmed),
        "exit_code": code,
        "coverage": {
            "evaluations": n_checks + len(smt_results),
            "distinct_nontrivial": covers_sat + smt_ok,
            "rule": ("evaluations = CBMC properties (assertions, overflow/index/unwinding checks) decided by the "
                     "SAT solver over the compiled harnesses + SMT obligations decided; distinct_nontrivial = "
                     "distinct vacuity witnesses (kani::cover points naming the scenario the property is about) that "
                     "the solver showed reachable + SMT obligations discharged with both solver configurations; "
                     "each harness covers ALL values of its symbolic inputs within the stated bounds"),
            "samples": samples,
            "explanation": spec.get("explanation") or (spec.get("level_text", "") + " " + spec.get("level_note", "")).strip() or "see DESIGN.md section 6",
            "harnesses_run": len(results),
            "harnesses_successful": harness_ok,
            "obligations": n_checks + len(smt_results),
            "discharged": sum(r.n_checks - r.n_failed for r in results.values()) + smt_ok,
            "checker_cmd": "cargo kani -Z stubbing --harness <h> --exact (CBMC 6.11 + cadical); cvc5 --solve-bv-as-int=sum / z3 for SMT obligations",
            "trusted_base": registry.TRUSTED_BASE,
            "functions_encoded": functions,
            "solver_time_s": round(sum(r.solver_s for r in results.values()) +
                                   sum(o.get("time_s", 0) or 0 for o in smt_results), 2),
            "symex_time_s": round(sum((r.symex_s or 0) for r in results.values()), 2),
            "per_harness": [r.to_json() for r in results.values()],
            "smt": smt_results,
            "bounds": spec.get("bounds", ""),
            "outside_bounds": spec.get("outside", ""),
            "overlay": ov_info,
            "inconclusive": inconclusive,
            "known_findings_hit": [{"id": k["id"], "harness": h, "check": fc["description"]} for k, h, fc in known_hits],
            "confirmed_violations": [{"harness": h, "checks": fcs, "replay": p} for h, fcs, p in confirmed],
            "notes": notes,
        },
        "assumptions": assumptions,
    }
    evdir = os.environ.get("VERIF_EVIDENCE_DIR") or os.path.join(VERIF, "evidence")  # mutant campaigns write elsewhere
    os.makedirs(evdir, exist_ok=True)
    json.dump(ev, open(os.path.join(evdir, prop + ".json"), "w"), indent=1)
    print("[%s] tier=%s exit=%d harnesses=%d ok=%d checks=%d covers_sat=%d smt_ok=%d/%d wall=%.0fs" % (
        prop, tier, code, len(results), harness_ok, n_checks, covers_sat, smt_ok, len(smt_results), wall))
    return code


def main(argv):
    import argparse
    ap = argparse.ArgumentParser()
    ap.add_argument("prop")
    ap.add_argument("--tier", default=os.environ.get("VERIF_TIER", "quick"))
    ap.add_argument("--replay")
    a = ap.parse_args(argv)
    seed = int(os.environ.get("VERIF_SEED", "0") or 0)
    if a.prop not in registry.PROPS:
        print("unknown or unclaimed property", a.prop)
        return 2
    if a.replay:
        return replay_file(a.prop, a.replay)
    tier = a.tier if a.tier in ("quick", "thorough") else "quick"
    return run_property(a.prop, tier, seed)
