"""The harness table: which harness serves which properties at which tier,
what it decides, within which bounds.  Imported by registry.py."""
from .registry import harness, P, DEFAULT_STUBS, NOT_APPLICABLE
from . import shapes

FMT = DEFAULT_STUBS[0]
STUB_UP = "cfb_uppercase_char"
STUB_COPY = "std :: io :: copy"
STUB_NOW = "Timestamp :: now"

A_IOCOPY = "stub: std::io::copy replaced by an equivalent 512-byte-buffer loop (read until EOF, write_all, retry on Interrupted)"
A_UPTABLE = "stub: cfb_uppercase_char replaced by a table generated at run time by evaluating the real function natively on the alphabet SIGMA (equal to the real function on SIGMA by construction)"
A_NOW = "stub: Timestamp::now returns an arbitrary value (the clock is a solver variable)"
A_SHAPE = "layout shapes (which sectors/mini sectors/slots are used, how chains are linked) are concrete per harness instance; contents, lengths and metadata are symbolic"

# ---------------------------------------------------------------- stream handle: seek
harness("c06_seek_total", props=["C06", "C10"], panic_props=["C06"], timeout=600, mem=6,
        what="Stream::seek from an arbitrary cache state: Ok/Err and new position equal the byte-vector model; refused seek leaves position, window, cursor, filled length unchanged; no panic",
        bounds="all u64 total_len/window offset, all i64/u64 seek arguments, cursor<=filled<=1024",
        functions=["<Stream<F> as Seek>::seek", "StreamBuffer::seek", "StreamBuffer::clear", "Stream::current_position"],
        assumes=["cache representation invariant: cursor <= filled <= buffer len, window inside [0,total_len]; clean buffer (no flusher)"])

# ---------------------------------------------------------------- names
for (n, tier, to) in [("c09_cmp_ascii_1_2", "quick", 300), ("c09_cmp_ascii_2_2", "quick", 400),
                      ("c09_cmp_ascii_3_2", "thorough", 900), ("c09_cmp_ascii_3_3", "thorough", 3600)]:
    harness(n, props=["C09", "C04", "C01"], tier=tier, timeout=to, mem=8, stubs=[FMT, STUB_UP],
            what="compare_names(a, b) == CFB order (shorter in UTF-16 units first, then upper-cased units) for ALL pairs of printable-ASCII names of the given lengths (fast path)",
            bounds="names of %s printable ASCII characters, all values" % n[-3:].replace("_", " and "),
            functions=["path::compare_names"], assumes=[A_UPTABLE])
for (n, tier, to) in [("c09_cmp_sigma_1_2", "quick", 600), ("c09_cmp_sigma_2_2", "quick", 900),
                      ("c09_cmp_sigma_2_1", "thorough", 900)]:
    harness(n, props=["C09", "C04", "C01"], tier=tier, timeout=to, mem=8, stubs=[FMT, STUB_UP],
            what="compare_names == CFB order for all pairs of names over SIGMA (ASCII case pairs, digit, punctuation sorting between Z and a, caseless sharp s, e-acute pair, U+1F80/U+1F88 exceptional pair, supplementary-plane U+1D49C): general path and its agreement with the ASCII fast path",
            bounds="names of %s characters over the 15-character alphabet SIGMA" % n[-3:].replace("_", " and "),
            functions=["path::compare_names", "path::cfb_uppercase_char (via table)"], assumes=[A_UPTABLE])

# ---------------------------------------------------------------- allocator
ALLOC_F = ["Allocator::begin_chain", "Allocator::extend_chain", "Allocator::allocate_sector", "Allocator::set_fat",
           "Allocator::free_chain", "Allocator::free_chain_after", "Allocator::free_sector", "Allocator::next",
           "Sectors::init_sector", "Sectors::seek_within_sector", "SectorInit::initialize", "Sector::write"]
for (n, tier) in [("alloc_begin_nofree", "quick"), ("alloc_begin_free13", "quick"), ("alloc_begin_free2", "thorough"),
                  ("alloc_extend_nofree", "quick"), ("alloc_extend_free3", "quick"),
                  ("alloc_free_chain3", "quick"), ("alloc_free_after3", "quick"), ("alloc_free_other", "thorough")]:
    harness(n, props=["C02", "C03", "C08", "C15", "C07"], tier=tier, timeout=900, mem=8,
            stubs=[FMT] + ([STUB_COPY] if "free_" not in n else []),
            what="one allocator step (begin/extend/free chain) from a well-formed FAT: FAT cache == image cells, header FAT count, injective in-range links, free list == FREE cells exactly once, free sectors reused before the file grows, fresh sectors zero even when the reused sector held arbitrary bytes, unrelated cells and data sectors untouched",
            bounds="4 sectors (+1 appended), v3; FAT shape concrete per instance (fragmented chain 1->3->2, free sectors at 1/3, ...); contents of reused sectors symbolic",
            functions=ALLOC_F, assumes=[A_IOCOPY, A_SHAPE])
harness("alloc_next_total", props=["C05", "C11", "C04"], timeout=600, mem=6,
        what="Allocator::next(id) for ANY u32 id over ANY three FAT cells: never panics, Ok only for in-range ids with a valid successor and then equal to the FAT cell, otherwise InvalidData",
        bounds="FAT of 4 cells with 3 fully symbolic u32 cells, id: all u32", functions=["Allocator::next"], assumes=[])

# ---------------------------------------------------------------- directory entry codec
DIRENT_F = ["DirEntry::read_from", "DirEntry::write_to", "DirEntry::read_clsid", "DirEntry::write_clsid",
            "path::validate_name", "Timestamp::read_from", "Timestamp::write_to", "ObjType::from_byte", "Color::from_byte"]
for (n, tier) in [("dirent_parse_storage_v3", "quick"), ("dirent_parse_stream_v3", "quick"), ("dirent_parse_root_v3", "quick"),
                  ("dirent_parse_stream_v4", "thorough"), ("dirent_parse_unalloc_v3", "thorough"),
                  ("dirent_parse_badtype_v3", "quick")]:
    harness(n, props=["C16", "C05", "C04"], tier=tier, timeout=1200, mem=10,
            what="DirEntry::read_from in BOTH modes on an entry whose 61 non-name, non-type bytes are arbitrary: never panics; strict Ok => permissive Ok; acceptance in each mode equals an independent statement of MS-CFB 2.6 plus the documented tolerated deviations (CLSID/timestamps on a stream, start sector/size on a storage, wrong root name); both views equal the independently decoded logical content",
            bounds="object type concrete per instance, name field concrete ('ab'), all other 61 bytes symbolic; v3 or v4 stream-length mask",
            functions=DIRENT_F, assumes=[])
for (n, tier) in [("dirent_rt_storage_2", "quick"), ("dirent_rt_root", "quick"), ("dirent_rt_stream_1", "thorough")]:
    harness(n, props=["C17", "C02", "C03", "C16"], tier=tier, timeout=2400, mem=12,
            what="write_to then read_from (strict and permissive) of an entry with arbitrary state bits, CLSID, creation/modification time, links, colour, start sector, length: bytes equal the independent MS-CFB encoder, every field read back unchanged",
            bounds="all values of the symbolic fields; concrete ASCII name; v3 (32-bit stream length) for storage/root, v4 for stream",
            functions=DIRENT_F + ["Uuid::from_fields", "Uuid::as_fields"], assumes=[])
harness("dirent_unallocated_blank", props=["C03"], timeout=300, mem=4,
        what="DirEntry::unallocated().write_to produces the blank entry of MS-CFB 2.6.3 (all zeros except three NOSTREAM links)",
        bounds="concrete", functions=["DirEntry::unallocated", "DirEntry::write_to"], assumes=[])
harness("dirent_maxname_concrete", props=["C09"], tier="thorough", timeout=2400, mem=16,
        what="a 31-unit name is written verbatim with length field 64 and read back by both readers in both versions",
        bounds="one concrete 31-character name", functions=DIRENT_F, assumes=[])
harness("dirent_root_name", props=["C16"], tier="thorough", timeout=3600, mem=16,
        what="root entry with an arbitrary 10-character ASCII name: strict accepts iff the name is exactly 'Root Entry'; permissive accepts and exposes 'Root Entry'",
        bounds="10 symbolic printable ASCII characters", functions=DIRENT_F, assumes=[])

# ---------------------------------------------------------------- properties
P("C06",
  level_text="Bounded model checking of the real Stream/StreamBuffer code: seek arithmetic decided for all 64-bit arguments from an arbitrary cache state; call histories of bounded length on a handle over the real storage layers compared with a byte vector (see bounds). The interesting inputs (i64::MIN, window boundaries) are rare points that only a solver enumerates.",
  level_note="Bounds in evidence.coverage; histories longer than k calls, streams beyond a few dozen bytes on the scaled buffer constant, and max_buffer_size values other than the listed ones are outside the claim.",
  bounds="seek: all u64/i64; histories: see per-harness bounds", outside="longer histories, larger streams, unscaled 1024-byte minimum buffer")
P("C10",
  level_text="Bounded model checking: a refused seek leaves the whole handle state unchanged (all arguments); refused API calls leave image and caches unchanged (bounded states).",
  level_note="Bounds as C06/C01.", bounds="seek: all arguments", outside="API-level refusals beyond the bounded states")
P("C09",
  level_text="compare_names decided equal to the MS-CFB order for all names within the length/alphabet bounds (ASCII path: every printable ASCII character; general path: alphabet SIGMA); name validation and codec checked on boundary lengths.",
  level_note="Unicode outside SIGMA is outside; the case-mapping stub equals the real function on SIGMA by construction (generated natively at run time).",
  bounds="names <= 2 (quick) / 3 (thorough) characters for the order; 31-unit names for the codec",
  outside="Unicode outside SIGMA; names longer than the bounds for the order relation")
P("C17", smt=["timestamp"],
  level_text="FILETIME conversion decided for ALL u64 timestamps and ALL (i64 secs, nanos<1e9) system times by SMT over the MIR of the real functions (round trip, floor toward the Unix epoch at 100 ns, saturation, no panic); directory-entry codec round trip for all field values by Kani.",
  level_note="std::time calls are summarised by their documented contract on the Unix (i64, u32) representation (listed in evidence.assumptions); other platforms' SystemTime ranges are outside.",
  bounds="timestamps: full width (no bound); entries: all field values, concrete names",
  outside="platforms whose SystemTime is not an (i64, u32) timespec; setters at the API level beyond the bounded directory states")
P("C16",
  level_text="Relational bounded model checking: the same symbolic bytes are parsed in strict and permissive mode in one query; acceptance and the decoded content are compared with an independent statement of the format and of the documented tolerated deviations.",
  level_note="Component-wise (directory entry, header, validators); whole-file open only on small concrete-shape images.",
  bounds="per parser: see harness bounds", outside="combinations of deviations across components; DIFAT-sector deviations")
P("C05",
  level_text="Bounded model checking of the parsers, validators and chain walkers on arbitrary (unconstrained) inputs: no panic, no arithmetic overflow, loop bounds proved by unwinding assertions.",
  level_note="Component-wise; memory exhaustion is only observable as vector-length bounds, allocation sizes are not visible to the solver.",
  bounds="see per-harness bounds", outside="inputs larger than the bounds; allocation sizes (e.g. Vec::with_capacity from an untrusted header field)")
P("C03",
  level_text="Inductive step checks: from a well-formed pre-state (concrete shape, symbolic contents) every allocator / mini allocator / directory / stream-storage step re-establishes an independent byte-level well-formedness predicate written from MS-CFB.",
  level_note="One verified step covers histories of any length whose states stay inside the size bound; shapes are a finite enumerated family.",
  bounds="<= 5 sectors, <= 16 mini sectors, <= 8 directory slots, v3", outside="DIFAT sectors (>109 FAT sectors), second FAT sector, v4 sector size")
P("C02",
  level_text="In every mutating step harness the cache cells changed by the operation are compared with the image bytes decoded by the harness's own little-endian reader, without calling flush (write-through).",
  level_note="Reopening itself (open on the image) is covered only for small images; the argument that equal (image, caches) states behave equally is on paper.",
  bounds="as C03", outside="as C03")
P("C08",
  level_text="Fresh/reused sectors and bytes gained by growing a stream are decided to be zero from pre-states whose free sectors, free mini sectors and slack bytes are arbitrary (symbolic) - the 'earlier history' is the arbitrary content.",
  level_note="Bounds as C03.", bounds="as C03; stream lengths <= 300 bytes in the mini stream, regular streams in dedicated instances", outside="larger streams")
P("C15",
  level_text="Allocation steps are decided to reuse free (mini) sectors and free slots before growing the file, free steps to put exactly the released (mini) sectors on the free lists, and allocation after everything was freed not to extend the MiniFAT / mini stream chains again.",
  level_note="Net-zero cycles follow from the step properties (free list == FREE cells; allocation prefers the free list); the composition is argued, not machine-checked.",
  bounds="as C03", outside="as C03")
P("C07",
  level_text="Step checks: every entry that survives a directory step keeps its slot (stream id) and content; allocator / storage steps leave other streams' cells and bytes untouched (frame conditions).",
  level_note="Handles are bound to slots by construction (stream.rs stores the slot index), so slot stability is the property.",
  bounds="<= 4 siblings, all 5 + 14 tree shapes", outside="more siblings; several open handles interleaved at the cache level")
P("C01",
  level_text="Directory lookup/insert/remove decided equal to an abstract case-insensitive map on every sibling-tree shape with <= 4 entries; name order decided equal to the CFB order; stream storage decided equal to a flat byte array.",
  level_note="API-level composition (path normalisation + pre-checks + one step) is covered for the creation/removal entry points on small states only.",
  bounds="<= 4 siblings per storage, names 1 character in tree steps", outside="larger sibling sets, deep storage nesting")
P("C04",
  level_text="Readers decided to decode exactly the logical content on symbolic valid inputs per component: any FAT link values (next), any valid sibling-tree shape and colouring (lookup), any directory-entry field values (codec), fragmented chains.",
  level_note="Whole-file layouts only through the component harnesses.", bounds="as C01/C03/C16", outside="whole-file symbolic layouts")
P("C11",
  level_text="Chain following on arbitrary FAT cells never panics (next()); mutating walks on states that only satisfy what permissive open checks are covered where registered.",
  level_note="See known findings for the unchecked walks.", bounds="FAT <= 4 cells", outside="larger tables")

for k in list(NOT_APPLICABLE):
    pass
