"""The harness table: which harness serves which properties at which tier,
what it decides, within which bounds.  Imported by registry.py."""
from .registry import harness, P, DEFAULT_STUBS, NOT_APPLICABLE
from . import shapes

FMT = DEFAULT_STUBS[0]
STUB_UP = "cfb_uppercase_char"
STUB_COPY = "std :: io :: copy"
STUB_NOW = "Timestamp :: now"

A_IOCOPY = "stub: std::io::copy replaced by an equivalent 512-byte-buffer loop (read until EOF, write_all, retry on Interrupted)"
A_UPTABLE = "stub: cfb_uppercase_char replaced by a table generated at run time by evaluating the real function natively on the alphabet SIGMA (equal to the real function on SIGMA by construction)"
A_NOW = "stub: Timestamp::now returns an arbitrary value (the clock is a solver variable)"
A_SHAPE = "layout shapes (which sectors/mini sectors/slots are used, how chains are linked) are concrete per harness instance; contents, lengths and metadata are symbolic"

# ---------------------------------------------------------------- stream handle: seek
harness("c06_seek_total", props=["C06", "C10"], panic_props=["C06"], timeout=600, mem=6,
        what="Stream::seek from an arbitrary cache state: Ok/Err and new position equal the byte-vector model; refused seek leaves position, window, cursor, filled length unchanged; no panic",
        bounds="all u64 total_len/window offset, all i64/u64 seek arguments, cursor<=filled<=1024",
        functions=["<Stream<F> as Seek>::seek", "StreamBuffer::seek", "StreamBuffer::clear", "Stream::current_position"],
        assumes=["cache representation invariant: cursor <= filled <= buffer len, window inside [0,total_len]; clean buffer (no flusher)"])

# ---------------------------------------------------------------- names
for (n, tier, to) in [("c09_cmp_ascii_1_2", "quick", 1200), ("c09_cmp_ascii_2_2", "quick", 1200),
                      ("c09_cmp_ascii_3_2", "thorough", 900), ("c09_cmp_ascii_3_3", "thorough", 3600)]:
    harness(n, props=["C09", "C04", "C01", "C03"], tier=tier, timeout=to, mem=8, stubs=[FMT, STUB_UP],
            what="compare_names(a, b) == CFB order (shorter in UTF-16 units first, then upper-cased units) for ALL pairs of printable-ASCII names of the given lengths (fast path)",
            bounds="names of %s printable ASCII characters, all values" % n[-3:].replace("_", " and "),
            functions=["path::compare_names"], assumes=[A_UPTABLE])
for (n, tier, to) in [("c09_cmp_sigma_1_2", "quick", 1800), ("c09_cmp_sigma_2_2", "quick", 1800),
                      ("c09_cmp_sigma_2_1", "thorough", 900)]:
    harness(n, props=["C09", "C04", "C01", "C03"], tier=tier, timeout=to, mem=8, stubs=[FMT, STUB_UP],
            what="compare_names == CFB order for all pairs of names over SIGMA (ASCII case pairs, digit, punctuation sorting between Z and a, caseless sharp s, e-acute pair, U+1F80/U+1F88 exceptional pair, supplementary-plane U+1D49C): general path and its agreement with the ASCII fast path",
            bounds="names of %s characters over the 15-character alphabet SIGMA" % n[-3:].replace("_", " and "),
            functions=["path::compare_names", "path::cfb_uppercase_char (via table)"], assumes=[A_UPTABLE])

# ---------------------------------------------------------------- allocator
ALLOC_F = ["Allocator::begin_chain", "Allocator::extend_chain", "Allocator::allocate_sector", "Allocator::set_fat",
           "Allocator::free_chain", "Allocator::free_chain_after", "Allocator::free_sector", "Allocator::next",
           "Sectors::init_sector", "Sectors::seek_within_sector", "SectorInit::initialize", "Sector::write"]
for (n, tier) in [("alloc_begin_nofree", "quick"), ("alloc_begin_free13", "quick"), ("alloc_begin_free2", "thorough"),
                  ("alloc_extend_nofree", "quick"), ("alloc_extend_free3", "quick"),
                  ("alloc_free_chain3", "quick"), ("alloc_free_after3", "quick"), ("alloc_free_other", "thorough")]:
    harness(n, props=["C02", "C03", "C08", "C15", "C07"], tier=tier, timeout=900, mem=4,
            stubs=[FMT] + ([STUB_COPY] if "free_" not in n else []),
            what="one allocator step (begin/extend/free chain) from a well-formed FAT: FAT cache == image cells, header FAT count, injective in-range links, free list == FREE cells exactly once, free sectors reused before the file grows, fresh sectors zero even when the reused sector held arbitrary bytes, unrelated cells and data sectors untouched",
            bounds="4 sectors (+1 appended), v3; FAT shape concrete per instance (fragmented chain 1->3->2, free sectors at 1/3, ...); contents of reused sectors symbolic",
            functions=ALLOC_F, assumes=[A_IOCOPY, A_SHAPE])
harness("alloc_next_total", props=["C05", "C11", "C04"], timeout=600, mem=6,
        what="Allocator::next(id) for ANY u32 id over ANY three FAT cells: never panics, Ok only for in-range ids with a valid successor and then equal to the FAT cell, otherwise InvalidData",
        bounds="FAT of 4 cells with 3 fully symbolic u32 cells, id: all u32", functions=["Allocator::next"], assumes=[])

# ---------------------------------------------------------------- directory entry codec
DIRENT_F = ["DirEntry::read_from", "DirEntry::write_to", "DirEntry::read_clsid", "DirEntry::write_clsid",
            "path::validate_name", "Timestamp::read_from", "Timestamp::write_to", "ObjType::from_byte", "Color::from_byte"]
for (n, tier) in [("dirent_parse_storage_v3", "quick"), ("dirent_parse_stream_v3", "quick"), ("dirent_parse_root_v3", "quick"),
                  ("dirent_parse_stream_v4", "thorough"), ("dirent_parse_unalloc_v3", "thorough"),
                  ("dirent_parse_badtype_v3", "quick")]:
    harness(n, props=["C16", "C05", "C04"], tier=tier, timeout=1200, mem=5,
            what="DirEntry::read_from in BOTH modes on an entry whose 61 non-name, non-type bytes are arbitrary: never panics; strict Ok => permissive Ok; acceptance in each mode equals an independent statement of MS-CFB 2.6 plus the documented tolerated deviations (CLSID/timestamps on a stream, start sector/size on a storage, wrong root name); both views equal the independently decoded logical content",
            bounds="object type concrete per instance, name field concrete ('ab'), all other 61 bytes symbolic; v3 or v4 stream-length mask",
            functions=DIRENT_F, assumes=[])
for (n, tier) in [("dirent_rt_storage_2", "quick"), ("dirent_rt_root", "quick"), ("dirent_rt_stream_1", "thorough")]:
    harness(n, props=["C17", "C02", "C03", "C16"], tier=tier, timeout=2400, mem=6,
            what="write_to then read_from (strict and permissive) of an entry with arbitrary state bits, CLSID, creation/modification time, links, colour, start sector, length: bytes equal the independent MS-CFB encoder, every field read back unchanged",
            bounds="all values of the symbolic fields; concrete ASCII name; v3 (32-bit stream length) for storage/root, v4 for stream",
            functions=DIRENT_F + ["Uuid::from_fields", "Uuid::as_fields"], assumes=[])
harness("dirent_unallocated_blank", props=["C03"], timeout=300, mem=4,
        what="DirEntry::unallocated().write_to produces the blank entry of MS-CFB 2.6.3 (all zeros except three NOSTREAM links)",
        bounds="concrete", functions=["DirEntry::unallocated", "DirEntry::write_to"], assumes=[])
harness("dirent_maxname_concrete", props=["C09"], tier="thorough", timeout=5400, mem=16,
        what="a 31-unit name is written verbatim with length field 64 and read back by both readers in both versions",
        bounds="one concrete 31-character name", functions=DIRENT_F, assumes=[])
for (n, tier) in [("dirent_root_name_lower", "quick"), ("dirent_root_name_upper", "thorough"), ("dirent_root_name_mixed", "thorough"),
                  ("dirent_root_name_other", "thorough"), ("dirent_root_name_exact", "thorough")]:
    harness(n, props=["C16"], tier=tier, timeout=1800, mem=6,
            what="root entry whose name differs from 'Root Entry' only in letter case / in length / not at all: strict accepts iff the name is exactly 'Root Entry'; permissive accepts and exposes 'Root Entry'",
            bounds="five concrete root names; all other fields symbolic", functions=DIRENT_F, assumes=[])

# ---------------------------------------------------------------- header / validators / chain walk
HDR_F = ["Header::read_from", "Header::write_to", "Version::from_number"]
harness("hdr_parse_total", props=["C05", "C16", "C04"], tier="thorough", timeout=7200, mem=20,
        what="Header::read_from on 512 fully symbolic bytes in both modes: never panics; acceptance per mode equals MS-CFB 2.2 (+ tolerated v3 directory-sector count); strict Ok => permissive Ok with identical fields; every field equals the independent little-endian decoding; DIFAT array read up to the first FREE",
        bounds="all 2^4096 headers", functions=HDR_F, assumes=[])
harness("hdr_roundtrip", props=["C03", "C02", "C17"], timeout=600, mem=8,
        what="Header::write_to with arbitrary field values produces a valid MS-CFB header with every field at its offset and zero reserved fields",
        bounds="all field values, two symbolic DIFAT entries", functions=HDR_F, assumes=[])
harness("alloc_validate_rel", props=["C16", "C05", "C04"], timeout=900, mem=8,
        what="Allocator::validate in both modes on the same arbitrary 4-cell FAT whose FAT sector carries an arbitrary (unmarked) cell: permissive accepts exactly the FATs that are valid after the documented repair, strict additionally requires the marker, strict Ok => permissive Ok with identical tables; free list = FREE cells",
        bounds="FAT of 4 fully symbolic u32 cells (links into the FAT sector itself excluded)", functions=["Allocator::validate"], assumes=[])
harness("chain_new_total", props=["C05", "C11", "C04"], timeout=600, mem=6, unwind_is_property=True,
        what="Chain::new from ANY start sector over ANY FAT accepted by the validator: terminates within n+1 steps (unwinding assertion), never panics; an Ok chain starts at start and has length n*512",
        bounds="FAT of 4 cells, 3 symbolic; start: all u32", functions=["Chain::new", "Allocator::next"], assumes=[])

# ---------------------------------------------------------------- directory tree steps (generated shape instances)
DIR_F = ["Directory::remove_dir_entry", "Directory::insert_dir_entry", "Directory::stream_id_for_name_chain",
         "Directory::allocate_dir_entry", "Directory::free_dir_entry", "Directory::write_dir_entry",
         "Directory::seek_within_dir_entry", "path::compare_names", "DirEntry::write_to", "DirEntry::new", "Chain::new", "Chain::write"]
_quick_dir = set(shapes.interesting_quick())
for c in shapes.cases():
    kind = c["kind"]
    if kind == "remove":
        props = ["C01", "C07", "C03", "C02", "C04", "C15", "C09"]
        what = "remove_dir_entry of slot %d (addressed by the other letter case) from the sibling tree shape #%s: removed slot blank and unallocated, EVERY surviving entry keeps its slot, content and reachability, no two adjacent reds, all directory slots written through" % (c["victim"], c["name"])
    elif kind == "insert":
        props = ["C01", "C07", "C03", "C02", "C15", "C17"]
        what = "insert_dir_entry of a new %s at gap '%s': first unallocated slot reused, entry stored verbatim and empty (storage: both times = one clock reading; stream: no times/CLSID), reachable, existing entries unmoved, written through" % ("storage" if c["storage"] else "stream", c["newkey"])
    else:
        props = ["C01", "C04", "C09"]
        what = "stream_id_for_name_chain for every present key in both letter cases and every absent key equals the abstract map"
    harness(c["name"], props=props, tier=("quick" if c["name"] in _quick_dir else "thorough"), timeout=1800, mem=5,
            stubs=[FMT, STUB_UP] + ([STUB_COPY, STUB_NOW] if kind == "insert" else []),
            what=what, bounds="%d siblings in two v3 directory sectors; tree shape, slot assignment and names concrete; colours (no adjacent reds), state bits, kinds/times symbolic" % c["n"],
            functions=DIR_F, assumes=[A_SHAPE, A_UPTABLE] + ([A_NOW, A_IOCOPY] if kind == "insert" else []))

# ---------------------------------------------------------------- mini allocator steps
MINI_F = ["MiniAllocator::begin_mini_chain", "MiniAllocator::extend_mini_chain", "MiniAllocator::allocate_mini_sector",
          "MiniAllocator::append_mini_sector", "MiniAllocator::free_mini_chain", "MiniAllocator::free_mini_chain_after",
          "MiniAllocator::free_mini_sector", "MiniAllocator::set_minifat", "Directory::with_root_dir_entry_mut",
          "Chain::new", "Chain::set_len", "Chain::write", "Allocator::extend_chain", "Allocator::begin_chain"]
for (n, tier) in [("mini_begin_reuse", "quick"), ("mini_extend_reuse", "quick"), ("mini_begin_append", "quick"),
                  ("mini_begin_full8", "thorough"), ("mini_extend_full16", "thorough"), ("mini_begin_bare", "thorough"),
                  ("mini_begin_after_empty", "quick"), ("mini_free_tail2", "quick"), ("mini_free_all", "quick"),
                  ("mini_free_middle", "thorough"), ("mini_free_after", "thorough"), ("mini_free_cross", "quick")]:
    harness(n, props=["C02", "C03", "C15", "C07"], tier=tier, timeout=2400, mem=5, stubs=[FMT, STUB_COPY],
            what="one MiniAllocator step: MiniFAT cache == image (rest FREE), header MiniFAT start/count == chain, root entry (mini stream start/length) written through, mini stream length == 64 x MiniFAT length, root chain length == ceil(length/512), injective in-range cells, both free lists == FREE cells exactly once, free (mini) sectors reused, file grows only when required, no growth when re-allocating after everything was freed",
            bounds="5 sectors (+2 appended), <= 16 mini sectors, v3; layout concrete per instance, mini stream contents symbolic",
            functions=MINI_F, assumes=[A_IOCOPY, A_SHAPE])

# ---------------------------------------------------------------- stream storage (flat byte array contract)
STOR_F = ["stream::read_data_from_stream", "stream::write_data_to_stream", "stream::resize_stream", "stream::zero_fill",
          "MiniChain::new", "MiniChain::read", "MiniChain::write", "MiniChain::set_len", "MiniChain::seek",
          "MiniAllocator::seek_within_mini_sector", "Chain::into_subsector", "Allocator::seek_within_subsector"]
for (n, tier) in [("stor_write_mid", "quick"), ("stor_write_append", "thorough"), ("stor_write_extend", "quick"), ("stor_write_empty", "thorough"),
                  ("stor_read_cross", "quick"), ("stor_read_clip", "thorough"), ("stor_read_all", "thorough"), ("stor_read_past", "thorough"),
                  ("stor_resize_in_sector", "quick"), ("stor_resize_to_128", "thorough"), ("stor_resize_to_129", "quick"),
                  ("stor_resize_shrink_64", "thorough"), ("stor_resize_shrink_63", "thorough"), ("stor_resize_to_0", "quick"),
                  ("stor_resize_reuse", "quick"), ("stor_resize_frag", "thorough")]:
    harness(n, props=["C01", "C03", "C08", "C07", "C02", "C06", "C12", "C04"] if "read" in n else ["C01", "C03", "C08", "C07", "C02"], tier=tier, timeout=3600, mem=14,
            stubs=[FMT] + ([] if "read" in n else [STUB_COPY]),
            what="real storage functions on a 100-byte stream in a (possibly fragmented) mini chain next to another stream: result, new length, placement by the 4096 cutoff, chain length == ceil(size/64), every stored byte (independent FAT/MiniFAT walk over the image) equals the flat-array model, gained bytes are zero even when reused mini sectors / slack hold arbitrary bytes, the other stream and the rest of the image untouched",
            bounds="offset/length/new size concrete per instance at and next to the 64-byte boundary; all data bytes and slack symbolic",
            functions=STOR_F + MINI_F, assumes=[A_SHAPE, A_IOCOPY])

# ---------------------------------------------------------------- 4096-byte cutoff (large layout)
for (n, tier) in [("big_4096_to_100", "quick"), ("big_4096_to_0", "thorough"), ("big_4096_to_5000", "thorough"),
                  ("big_5000_to_4096", "quick"), ("big_5000_to_4097", "thorough"), ("big_5000_to_4095", "thorough"),
                  ("big_grow_100_to_4096", "thorough"), ("big_grow_100_to_4200", "quick")]:
    harness(n, props=["C03", "C01", "C08", "C07", "C15"], tier=tier, timeout=5400, mem=12, fs=16384, stubs=[FMT, STUB_COPY],
            what="resize_stream across / at the 4096-byte cutoff on a file with a large stream in regular sectors and a small stream in the mini stream: placement by the cutoff (a 4096-byte stream is regular), chain length == ceil(size/sector), kept bytes kept, gained bytes zero (stale slack of the last mini sector must not migrate), released sectors FREE, the other stream untouched",
            bounds="old/new length concrete per instance (4095/4096/4097/5000/100/0/4200); first and last sector of the large stream, the small stream and its slack symbolic",
            functions=STOR_F + MINI_F + ALLOC_F, assumes=[A_SHAPE, A_IOCOPY])
for (n, tier, props) in [("big_write_4096_mid", "quick", ["C01", "C03", "C07"]), ("big_write_4096_append", "thorough", ["C01", "C03", "C07"]),
                         ("big_write_5000_tail", "thorough", ["C01", "C03", "C07"]), ("big_write_migrate", "quick", ["C01", "C03", "C18", "C15"]),
                         ("big_5000_to_5100", "quick", ["C08", "C01", "C03"]), ("big_5000_to_5120", "thorough", ["C08", "C01", "C03"]), ("big_5000_to_5200", "thorough", ["C08", "C01", "C03"])]:
    harness(n, props=props, tier=tier, timeout=3600, mem=12, fs=16384, stubs=[FMT, STUB_COPY],
            what="write_data_to_stream / resize_stream at the 4096 cutoff (h_big2.rs): a write into a regular stream of exactly 4096 bytes stays in its regular chain and leaves the MiniFAT and the small stream alone; a write starting inside a small stream that carries it past the cutoff keeps the prefix and stores every written byte (case 2b); a regular stream grown inside its last sector reads zero although the slack is arbitrary",
            bounds="lengths/offsets concrete per instance; first/last sector of the large stream, slack, written data symbolic (middle of a 4050-byte write concrete)", functions=STOR_F + MINI_F, assumes=[A_SHAPE, A_IOCOPY])
for (n, tier) in [("big_remove_4096", "quick"), ("big_remove_4097", "thorough")]:
    harness(n, props=["C01", "C07", "C15", "C03"], tier=tier, timeout=5400, mem=12, fs=16384, stubs=[FMT, STUB_COPY, STUB_UP, "OsStr :: to_str"],
            what="CompoundFile::remove_stream of a stream of exactly 4096 (4097) bytes: its regular chain is freed, the MiniFAT and the small stream's mini chain are untouched, the entry is released, lookups agree",
            bounds="concrete length at the cutoff; symbolic contents", functions=["CompoundFile::remove_stream", "Directory::remove_dir_entry"] + ALLOC_F + MINI_F, assumes=[A_SHAPE, A_UPTABLE])

# ---------------------------------------------------------------- open() on a small unusual layout
OPEN_F = ["CompoundFile::open_internal", "Header::read_from", "Allocator::new", "Allocator::validate", "Directory::new", "Directory::validate",
          "MiniAllocator::new", "MiniAllocator::validate", "DirEntry::read_from", "Chain::new", "Chain::read", "Entries::next", "Stream::read"]
for (n, tier) in [("open_valid_permissive", "thorough"), ("open_valid_strict", "thorough")]:
    harness(n, props=["C04", "C02", "C16", "C05", "C17"], tier=tier, timeout=7200, mem=16, fs=8192, stubs=[FMT, STUB_UP],
            what="open_internal on a valid file laid out unlike this crate's writer (FAT in sector 1, directory chain 4 -> 0 so that the physically last sector's FAT cell is 0, red nodes, unallocated slots): accepted, caches (FAT, MiniFAT, all 8 directory entries) equal what the image encodes, lookups by other letter case, metadata and the bytes of a fragmented mini stream read back",
            bounds="6-sector v3 image; mini stream contents and metadata symbolic", functions=OPEN_F, assumes=[A_SHAPE, A_UPTABLE])
for (n, tier) in [("open_dev_all_permissive", "thorough")] + [("open_dev_strict_d%d" % k, "thorough") for k in (1, 2, 3, 5, 6, 7, 8)]:
    harness(n, props=["C16", "C04", "C05"], tier=tier, timeout=7200, mem=16, fs=8192, stubs=[FMT, STUB_UP],
            what="open_internal on the foreign-layout image with deviations planted in the bytes (D1 wrong FAT sector count, D2 wrong MiniFAT sector count, D3 non-zero v3 directory sector count, D5 FAT sector not marked in the FAT, D6 zero-padded FAT, D7 adjacent red nodes, D8 over-long MiniFAT): all at once are accepted by permissive open with the caches, lookups and stream bytes of the undamaged file; each alone is rejected by strict open",
            bounds="one 6-sector v3 image; mini stream contents and metadata symbolic; deviation set concrete per instance", functions=OPEN_F, assumes=[A_SHAPE, A_UPTABLE])
harness("open_counts_alloc", props=["C05", "C16"], tier="quick", timeout=7200, mem=16, fs=8192, stubs=[FMT, STUB_UP, "with_capacity"],
        what="open_internal (permissive) with the header's four count fields (directory / FAT / MiniFAT / DIFAT sectors) ANY u32: accepted, table sizes come from the chains, and no Vec::with_capacity call asks for more elements than a small multiple of the file's size (stub asserts the bound, then reserves)",
        bounds="6-sector v3 image; the four count fields symbolic (all u32)", functions=OPEN_F, assumes=[A_SHAPE, A_UPTABLE, "stub: Vec::with_capacity(n) asserts n <= 4 x file size, then Vec::new() + reserve_exact(n)"])
for (n, tier) in [("open_uncovered_reuse", "thorough"), ("open_uncovered_grow", "thorough")]:
    harness(n, props=["C11", "C02", "C03", "C15"], tier=tier, timeout=7200, mem=16, fs=8192, stubs=[FMT, STUB_COPY, STUB_UP],
            what="open_internal on a file with MORE sectors (131) than its single FAT sector covers (128): if accepted, the cached FAT is not longer than what the FAT sectors can record, no uncovered sector is on the free list, and allocate_sector afterwards works - reuse of a free sector below the coverage / growth by FAT sector 128 over the unowned trailing sectors, written through",
            bounds="one layout (open_image) with a 131-sector file length; hole between sector 8 and sector 126 must not be touched; tail sectors arbitrary", functions=OPEN_F + ["Allocator::allocate_sector", "Allocator::append_fat_sector", "Allocator::set_fat", "Sectors::init_sector"], assumes=[A_SHAPE, A_IOCOPY, A_UPTABLE])
# ---------------------------------------------------------------- C11: write-path walks from unvalidated start sectors (h_walks.rs)
_WALK_Q = ["c11_free_mini_chain_far", "c11_free_mini_after_past_end", "c11_extend_mini_at_free", "c11_extend_chain_freemark",
           "c11_extend_chain_at_free", "c11_free_mini_chain_inside"]
for _op in ["free_mini_chain", "free_mini_after", "extend_mini", "extend_chain"]:
    for _cls in ["past_end", "far", "maxreg", "freemark", "at_free"] + (["inside"] if _op in ("free_mini_chain", "extend_chain") else []) + (["at_fatsect"] if _op == "extend_chain" else []):
        _n = "c11_%s_%s" % (_op, _cls)
        harness(_n, props=["C11"], tier=("quick" if _n in _WALK_Q else "thorough"), timeout=900, mem=6, stubs=[FMT, STUB_COPY],
                what="%s from a start sector of class '%s' on a well-formed allocator: returns Ok or Err, no index panic, terminates (unwinding assertion); a start outside the table is refused" % (_op, _cls),
                bounds="MiniFAT [1,EOC,EOC,FREE,EOC] / FAT [FATSECT,2,EOC,FREE]; start sector concrete per instance over its classes (first cell past the table, 1000, MAX_REGULAR_SECTOR, FREE marker, a FREE cell, the FAT sector's cell, inside a chain); mini stream bytes symbolic",
                functions=["MiniAllocator::free_mini_chain", "MiniAllocator::free_mini_chain_after", "MiniAllocator::extend_mini_chain", "MiniAllocator::free_mini_sector", "MiniAllocator::next_mini_sector", "Allocator::extend_chain", "Allocator::next"],
                assumes=[A_IOCOPY, A_SHAPE, "start sector enumerated over classes, not symbolic (a symbolic start did not finish in 10 min)"])
harness("mini_next_total", props=["C11", "C05", "C04"], timeout=600, mem=6, stubs=[FMT],
        what="MiniAllocator::next_mini_sector(id) for ANY u32 id over ANY four MiniFAT cells: never panics, Ok only for in-range ids with a valid successor and then equal to the cell, otherwise an error",
        bounds="MiniFAT of 4 fully symbolic u32 cells, id: all u32", functions=["MiniAllocator::next_mini_sector"], assumes=[])
harness("mini_begin_at_128", props=["C15", "C02", "C03"], tier="quick", timeout=3600, mem=12, fs=16384, stubs=[FMT, STUB_COPY],
        what="begin_mini_chain when the cached MiniFAT holds exactly 128 entries (one v3 MiniFAT sector's worth) while the MiniFAT chain already has two sectors (trailing mini sectors were released earlier): the chain and the header count stay at two, the new cell is written through into the second MiniFAT sector, the file grows only by the mini stream's one sector",
        bounds="one layout: 20-sector v3 image, 128 one-sector mini chains", functions=MINI_F, assumes=[A_SHAPE, A_IOCOPY])
harness("dir_validate_total", props=["C05", "C16", "C04"], tier="parked", timeout=3600, mem=12, stubs=[FMT, STUB_UP],
        what="Directory::validate on a 3-entry directory (root + a, b) whose left/right/child links are ANY u32 and whose colours and non-root types are arbitrary: never panics, terminates; permissive acceptance == (reachable links in range, a tree, storages/streams only, locally ordered); strict == permissive and no two adjacent reds; lookups on every accepted directory terminate and return only the named reachable slot",
        bounds="3 directory entries, names a < b concrete; all link values (any u32), colours and types symbolic", functions=["Directory::validate", "Directory::stream_id_for_name_chain", "path::compare_names"], assumes=[A_UPTABLE, "stream entries carry no child (DirEntry::read_from rejects that in both modes: dirent_parse_stream_*)"])
# ---------------------------------------------------------------- C13/C02/C17: fault inside a directory entry update (h_dfault.rs)
A_NOINTR = "stub: io::Error::is_interrupted returns false (the FaultAt backend never interrupts; std's write_all/read_exact would otherwise make the 'interrupted, retry' arm symbolic control for every call after the fault)"
for (_n, _t) in [("at0", "quick"), ("at1", "thorough"), ("at2", "thorough"), ("at3", "quick"), ("at9", "thorough"), ("at20", "thorough")]:
    harness("c13_dirent_fault_" + _n, props=["C13", "C02", "C17"], tier=_t, timeout=1800, mem=8, stubs=[FMT, "is_interrupted"],
            what="with_dir_entry_mut (last step of every write-back, of set_len and of every setter) with the k-th backend seek/write failing: the error surfaces; after the same update is retried without fault and returns Ok, the 128 bytes of the entry in the file (own encoder) equal the entry in memory - an Ok must be durable",
            bounds="fault position k concrete per instance; new start sector / length / state bits arbitrary (symbolic); 4-entry v3 directory in a 2-sector image", functions=["Directory::with_dir_entry_mut", "Directory::write_dir_entry", "DirEntry::write_to", "Chain::write"], assumes=[A_SHAPE, A_NOINTR])
for _k in range(9):
    harness("c13_mini_first_fault_at%d" % _k, props=["C13", "C02"], tier=("thorough" if _k in (0, 1) else "parked"), timeout=1800, mem=8, stubs=[FMT, STUB_COPY, "is_interrupted"],
            what="begin_mini_chain on a fresh file (no MiniFAT yet) with the k-th backend seek/write failing, then retried without fault: the error surfaces; if the retry returns Ok the header names the MiniFAT sector the allocator uses, the MiniFAT cell and the root entry are in the file (an Ok after a failed attempt must leave a file that reopens)",
            bounds="fault position k concrete per instance (0..8); 2-sector v3 image growing to 4", functions=MINI_F + ["Allocator::allocate_sector", "Sectors::init_sector"], assumes=[A_SHAPE, A_IOCOPY, A_NOINTR])
for _k in range(8):
    harness("c13_mini_first_seekfault_at%d" % _k, props=["C13", "C02"], tier="parked", timeout=1800, mem=8, stubs=[FMT, STUB_COPY, "is_interrupted"],
            what="begin_mini_chain on a fresh file with the k-th backend SEEK failing (writes never fail), then retried without fault: the error surfaces; if the retry returns Ok the header names the MiniFAT sector the allocator uses, the MiniFAT cell and the root entry are in the file",
            bounds="k-th seek, k concrete per instance (0..7); 2-sector v3 image growing to 4", functions=MINI_F + ["Allocator::allocate_sector", "Sectors::init_sector"], assumes=[A_SHAPE, A_IOCOPY, A_NOINTR])
# ---------------------------------------------------------------- C11: entries whose (start sector, length) disagree with their chain (h_incons.rs)
_INCONS = [("eoc100_write0", "quick"), ("eoc100_write_at_len", "thorough"), ("eoc100_resize50", "quick"), ("eoc100_resize200", "thorough"), ("eoc100_resize0", "thorough"),
           ("eoc100_read", "thorough"), ("eoc5000_write0", "thorough"), ("eoc5000_resize100", "thorough"),
           ("short300_write_in", "thorough"), ("short300_write_beyond", "quick"), ("short300_write_at_len", "thorough"), ("short300_resize100", "thorough"),
           ("short300_resize320", "thorough"), ("short300_resize0", "thorough"), ("short300_read_beyond", "thorough"),
           ("reg_in_mini_write", "thorough"), ("reg_in_mini_resize100", "thorough"), ("reg_in_mini_resize0", "quick"), ("reg_in_mini_read", "thorough"),
           ("zero_chain_write", "thorough"), ("zero_chain_resize100", "thorough")]
for (_n, _t) in _INCONS:
    harness("c11_incons_" + _n, props=["C11"], tier=_t, timeout=1800, mem=8, stubs=[FMT, STUB_COPY],
            what="read_data_from_stream / write_data_to_stream / resize_stream on a stream entry whose start sector and length disagree with the chains (class and operation in the name: a length without a chain, a length beyond the chain, a 'regular' length over a mini start, a chain without a length): the call returns Ok or Err - no failed debug assertion, no overflow, no index panic, terminates; a length with no chain behind it is refused",
            bounds="4-sector v3 image, MiniFAT [1, EOC, EOC]; entry class, offset and size concrete per instance; data symbolic", functions=STOR_F + MINI_F, assumes=[A_SHAPE, A_IOCOPY])
for (_n, _t) in [("regshort_resize4500", "quick"), ("regshort_resize5100", "thorough"), ("regshort_resize100", "thorough"), ("regshort_write_in", "thorough"),
                 ("regshort_write_beyond", "thorough"), ("regshort_read", "thorough")]:
    harness("c11_incons_" + _n, props=["C11"], tier=_t, timeout=1800, mem=8, stubs=[FMT, STUB_COPY],
            what="read / write / resize of a REGULAR stream whose length field (5000) claims more than its one-sector chain holds: returns Ok or Err, no overflow / failed assertion / index panic, terminates",
            bounds="5-sector v3 image; offsets and sizes concrete per instance; data symbolic", functions=STOR_F, assumes=[A_SHAPE, A_IOCOPY])
harness("c11_root_cycle_append", props=["C11"], tier="quick", timeout=1800, mem=8, stubs=[FMT, STUB_COPY], unwind_is_property=True, hang_replay_vals=600,
        what="allocate_mini_sector when the mini stream must grow and the root entry's sector chain is a cycle (sector 3 -> 3, which the FAT validator accepts): the cycle is noticed and an error returned; termination = unwinding assertion",
        bounds="5-sector v3 image, MiniFAT of 8 cells, no free mini sector", functions=MINI_F + ["Chain::new", "Allocator::extend_chain"], assumes=[A_SHAPE, A_IOCOPY])
for (_n, _t) in [("c11_resize_u64max", "quick"), ("c11_resize_u64max_m100", "thorough"), ("c11_resize_u64max_m511", "thorough"), ("c11_write_data_overflow", "quick")]:
    harness(_n, props=["C11", "C06"], tier=_t, timeout=1800, mem=8, stubs=[FMT, STUB_COPY],
            what="resize_stream / write_data_to_stream on a VALID small stream with a new length / end offset next to u64::MAX: refused with an error instead of overflowing in Chain::set_len or in the length arithmetic",
            bounds="the listed extreme values; 4-sector v3 image", functions=STOR_F + ["Chain::set_len", "MiniChain::set_len"], assumes=[A_SHAPE, A_IOCOPY])
harness("c11_write_total", props=["C11", "C06", "C10"], panic_props=["C11", "C06"], timeout=900, mem=6,
        what="Stream::write of 1..4 bytes from an ARBITRARY cache state: returns; Ok(k) => 1<=k<=n, position advanced by k, length = max(old, new position); position + n beyond u64::MAX => refused with InvalidInput and the handle unchanged; no arithmetic overflow",
        bounds="all u64 total_len / window offset, all cursor <= filled <= 1024 of a buffer at its maximum size, n in 1..4", functions=["<Stream<F> as Write>::write", "StreamBuffer::write_bytes", "Stream::current_position", "Stream::mark_modified"],
        assumes=["cache representation invariant: cursor <= filled <= buffer len, window inside [0,total_len]; clean buffer (no flusher)"])
harness("open_bogus_minifat_then_write", props=["C11", "C05"], tier="thorough", timeout=7200, mem=16, fs=8192, stubs=[FMT, STUB_COPY, STUB_UP],
        what="for EVERY value of the header's first-MiniFAT-sector field on a file with an empty mini stream: if permissive open accepts the file, writing a small stream afterwards returns Ok or Err without panicking or looping",
        bounds="first_minifat_sector: all u32; 6-sector image", functions=OPEN_F + STOR_F + MINI_F, assumes=[A_SHAPE, A_IOCOPY])

# ---------------------------------------------------------------- DIFAT growth (> 109 FAT sectors) on a sparse file
for (n, tier) in [("difat_first_sector", "quick"), ("difat_last_slot", "thorough"), ("difat_second_sector", "quick")]:
    harness(n, props=["C03", "C02"], tier=tier, timeout=5400, mem=12, stubs=[FMT],
            what="append_fat_sector with 109 / 235 / 236 existing FAT sectors: DIFAT entry lands in the right DIFAT sector slot (a DIFAT sector holds 127 entries, slot 127 is the chain pointer), new DIFAT sectors are created, initialised (FREE entries, END_OF_CHAIN link), linked from the previous one and counted in the header; FAT cells of the new sectors written through; no other sector touched",
            bounds="exactly these three table sizes; v3; sparse 15 MB file of 5 pages with arbitrary previous content", functions=["Allocator::append_fat_sector", "Allocator::set_fat", "Sectors::init_sector", "SectorInit::initialize"],
            assumes=["environment: sparse file model - only the header and the sectors the scenario may legitimately touch exist; touching any other sector is an assertion failure"])

# ---------------------------------------------------------------- API level
API_F = ["CompoundFile::create_stream", "CompoundFile::create_new_stream", "CompoundFile::create_storage", "CompoundFile::create_storage_all",
         "CompoundFile::remove_stream", "CompoundFile::remove_storage", "CompoundFile::open_stream", "CompoundFile::entry",
         "CompoundFile::set_state_bits", "CompoundFile::set_storage_clsid", "path::name_chain_from_path", "path::validate_name"]
harness("api_invalid_names", props=["C09", "C10"], timeout=3000, mem=6, stubs=[FMT, STUB_UP, "OsStr :: to_str"],
        what="create_stream/create_storage/create_new_stream/create_storage_all with a forbidden character or a 32-unit name: InvalidInput, image and caches bit-identical afterwards",
        bounds="5 concrete invalid paths on a 3-entry file with symbolic contents/metadata", functions=API_F, assumes=[A_SHAPE, A_UPTABLE])
for n in ["api_ref_new_stream_exists", "api_ref_storage_on_stream", "api_ref_stream_on_storage", "api_ref_parent_missing",
          "api_ref_parent_is_stream", "api_ref_remove_storage_on_stream", "api_ref_remove_stream_on_storage", "api_ref_remove_root",
          "api_ref_remove_missing", "api_ref_open_storage", "api_ref_escape_root", "api_ref_clsid_on_stream", "api_ref_state_missing"]:
    harness(n, props=["C10", "C01"], tier=("quick" if n in ("api_ref_new_stream_exists", "api_ref_parent_is_stream", "api_ref_remove_stream_on_storage") else "thorough"),
            timeout=3000, mem=14, stubs=[FMT, STUB_UP, "OsStr :: to_str"],
            what="a call the abstract model refuses (%s) returns exactly the model's error kind and leaves image and caches bit-identical" % n[8:],
            bounds="concrete path on a 3-entry file with symbolic contents/metadata", functions=API_F, assumes=[A_SHAPE, A_UPTABLE])
harness("api_setters", props=["C17", "C02", "C07", "C01"], timeout=3000, mem=6, stubs=[FMT, STUB_UP, "OsStr :: to_str"],
        what="set_state_bits / set_storage_clsid with arbitrary values through differently spelled paths: entry() returns them exactly, the directory sector equals the old entries with exactly the set fields replaced (write-through, other entries untouched), streams keep a nil CLSID",
        bounds="all u32 state bits, 96 symbolic CLSID bits", functions=API_F + ["Entry::new"], assumes=[A_SHAPE, A_UPTABLE])

# ---------------------------------------------------------------- stream handle histories (variant buf8)
A_MODEL = "stub: the three storage functions of stream.rs are replaced by a flat byte-array model (their contract; the real functions are checked against it by the stor_* harnesses); natively the same harness runs on the real storage"
A_BUF8 = "overlay: STREAM_BUFFER_MIN scaled from 1024 to 8 and Vec::resize routed through an equivalent bounded loop (cache harnesses only)"
A_UPG = "stub: Stream::minialloc (Weak::upgrade) replaced by pointer re-materialisation (the CompoundFile outlives the handle in the harness)"
STUB_CACHE = [FMT, "read_data_from_stream", "write_data_to_stream", "resize_stream", "Stream :: minialloc"]
CACHE_F = ["Stream::read", "Stream::fill_buf", "Stream::consume", "Stream::write", "Stream::seek", "Stream::set_len", "Stream::flush",
           "Stream::flush_changes", "Stream::new", "FlushBuffer::flush_changes", "StreamBuffer::*"]
from . import seqs
A_MODELP = "overlay (cache variant): the three storage functions of stream.rs divert to a flat byte-array model (their contract; the real functions are checked against it by the stor_* harnesses) while the harness has switched it on - under Kani and in native playback alike"
_cq = set(seqs.quick())
for c in seqs.cases():
    if c.get("fault"):
        continue
    harness(c["name"], props=["C06", "C18", "C02", "C13", "C10"], tier=("quick" if c["name"] in _cq else "thorough"), timeout=1800, mem=5,
            variant="buf8", stubs=[FMT, "Stream :: minialloc"],
            what="call sequence %s on a handle over a 12-byte stream with symbolic content and symbolic written data, compared after every call with a byte vector + cursor (result, bytes, position, len()); final flush leaves exactly the model bytes in storage and flushes the file" % [seqs.NAMES[o] for o in c["ops"]],
            bounds="operations and arguments concrete (table of 18 variants on/next to the 8-byte window and the 12-byte length); data symbolic; max_buffer_size %d on the scaled 8-byte minimum" % c["maxbuf"],
            functions=CACHE_F, assumes=[A_MODELP, A_BUF8, A_UPG])

# ---------------------------------------------------------------- lock discipline (variant lock)
A_LOCK = "overlay: std::sync::RwLock replaced by an instrumented single-threaded lock that asserts no guard is live on acquisition and lets try_read/try_write fail nondeterministically; thread schedules are NOT explored"
for n in ["c14_lookups", "c14_iter_root", "c14_iter_walk", "c14_iter_storage", "c14_stream_rw", "c14_stream_setlen", "c14_stream_big_window"]:
    harness(n, props=["C14"], timeout=3000, mem=(16 if n == "c14_stream_big_window" else 10), variant=("buf8" if n.startswith("c14_stream") else "lock"), fs=8192, stubs=([FMT, "Stream :: minialloc"] if n.startswith("c14_stream") else [FMT, STUB_UP]),
            what="every read-only method, every iterator step (with read-only calls interleaved while the iterator is alive) and every stream operation acquires the lock only while no guard is live and releases it before returning",
            bounds="3-entry file; one call sequence; symbolic contents/metadata", functions=["CompoundFile::*(read-only)", "Entries::next", "Entries::new", "Stream::*"],
            assumes=[A_LOCK, A_SHAPE, A_UPTABLE])

harness("c14_one_lookup", props=["C14"], timeout=1800, mem=10, variant="lock", fs=8192, stubs=[FMT, STUB_UP],
        what="one read-only call (exists) under the instrumented lock whose try_read/try_write may fail at any time: no unwrap of a failed try-lock, no nested acquisition, guard released",
        bounds="3-entry file; one call", functions=["CompoundFile::exists", "CompoundFile::minialloc"], assumes=[A_LOCK, A_SHAPE, A_UPTABLE])
# ---------------------------------------------------------------- faults (C12 / C13)
A_FAULT = "environment: FaultAt backend - exactly the at-th read/seek (C12) or write/seek/flush (C13) call of the armed phase fails; at is concrete per instance (the position k of the property's quantifier is enumerated by instances)"
for (n, tier) in [("stor_read_fault_seek0", "quick"), ("stor_read_fault_seek1", "quick"), ("stor_read_fault_seek2", "thorough"),
                  ("stor_read_fault_read0", "quick"), ("stor_read_fault_read1", "thorough")]:
    harness(n, props=["C12"], tier=tier, timeout=5400, mem=10, stubs=[FMT],
            what="read_data_from_stream (real mini chain / chain / sector layers) across a mini sector boundary of a fragmented chain with the k-th underlying seek (or read) call failing: Err, or exactly the stream's bytes; image, file length and caches unmodified",
            bounds="one fault at call index k; stream content symbolic", functions=STOR_F, assumes=[A_FAULT, A_SHAPE])
for c in seqs.cases():
    if c.get("fault"):
        harness(c["name"], props=["C12"] if "c12" in c["name"] else ["C13"], tier=("quick" if c["name"].endswith("_min") else "thorough"), timeout=1800, mem=5,
                variant="buf8", stubs=[FMT, "Stream :: minialloc"],
                what="handle-level fault scenario %s: a one-shot failure of the next storage read (C12) / write-back (C13) is armed (ARMR/ARMW); the failing call returns Err and leaves the position; retries return the true bytes; a flush that returns Ok after a failed one leaves exactly the written bytes in storage" % [seqs.NAMES[o] for o in c["ops"]],
                bounds="concrete call sequence, symbolic data; fault at the storage-model boundary (lower layers: stor_read_fault_*, c13_free_fault_*)",
                functions=CACHE_F, assumes=[A_MODELP, A_BUF8, A_UPG])
for (n, tier) in [("c13_free_fault_at0", "quick"), ("c13_free_fault_at1", "thorough"), ("c13_free_fault_at2", "quick"), ("c13_free_fault_at3", "thorough"), ("c13_free_fault_at4", "quick"), ("c13_free_fault_at5", "thorough")]:
    harness(n, props=["C13"], tier=tier, timeout=1800, mem=6, stubs=[FMT],
            what="free_chain of a 3-sector chain with the k-th write/seek call failing, then a retry: the fault surfaces, nothing panics, no sector is on the free list twice and every listed sector is FREE",
            bounds="4 sectors, one fault at call index k (even k: a seek, odd k: a write of the FAT cell)", functions=ALLOC_F, assumes=[A_FAULT, A_SHAPE])

# ---------------------------------------------------------------- chunked transfers (C18)
A_CHUNK = "environment: Chunky backend - the at-th read/write call transfers 1 byte, n-1 bytes, or returns Interrupted (position and kind concrete per instance)"
for (n, tier) in [("chunky_init_zero_one", "quick"), ("chunky_init_zero_short", "thorough"), ("chunky_init_zero_intr", "quick"),
                  ("chunky_init_fat_one", "quick"), ("chunky_init_fat_intr", "thorough"), ("chunky_dirent_one", "quick"),
                  ("chunky_dirent_intr", "thorough"), ("chunky_stor_first_one", "quick"), ("chunky_stor_second_short", "thorough"),
                  ("chunky_stor_first_intr", "thorough")]:
    harness(n, props=["C18"], tier=tier, timeout=3000, mem=8, stubs=[FMT] + ([STUB_COPY] if "dirent" not in n else []),
            what="same assertions as the plain harness, over a backend in which one chosen read/write call is cut to 1 byte, to n-1 bytes, or refused with Interrupted",
            bounds="one disturbed transfer per run, position and kind concrete per instance; data symbolic",
            functions=["Sectors::init_sector", "SectorInit::initialize", "DirEntry::write_to", "DirEntry::read_from"] + STOR_F,
            assumes=[A_CHUNK, A_IOCOPY])

# ---------------------------------------------------------------- properties
P("C06",
  level_text="Bounded model checking of the real Stream/StreamBuffer code: seek arithmetic decided for all 64-bit arguments from an arbitrary cache state; call histories of bounded length on a handle over the real storage layers compared with a byte vector (see bounds). The interesting inputs (i64::MIN, window boundaries) are rare points that only a solver enumerates.",
  level_note="Bounds in evidence.coverage; histories longer than k calls, streams beyond a few dozen bytes on the scaled buffer constant, and max_buffer_size values other than the listed ones are outside the claim.",
  bounds="seek: all u64/i64; histories: see per-harness bounds", outside="longer histories, larger streams, unscaled 1024-byte minimum buffer")
P("C10",
  level_text="Bounded model checking: a refused seek leaves the whole handle state unchanged (all arguments); refused API calls leave image and caches unchanged (bounded states).",
  level_note="Bounds as C06/C01.", bounds="seek: all arguments", outside="API-level refusals beyond the bounded states")
P("C09",
  level_text="compare_names decided equal to the MS-CFB order for all names within the length/alphabet bounds (ASCII path: every printable ASCII character; general path: alphabet SIGMA); name validation and codec checked on boundary lengths.",
  level_note="Unicode outside SIGMA is outside; the case-mapping stub equals the real function on SIGMA by construction (generated natively at run time).",
  bounds="names <= 2 (quick) / 3 (thorough) characters for the order; 31-unit names for the codec",
  outside="Unicode outside SIGMA; names longer than the bounds for the order relation")
P("C17", smt=["timestamp"],
  technique="SMT over the nightly MIR of the real timestamp functions (bit-vector encoding regenerated per run; cvc5 --solve-bv-as-int=sum decides, z3 cross-checks, models replayed natively) plus bounded model checking of the compiled directory-entry/header/setter code (Kani/CBMC, SAT)",
  level_text="FILETIME conversion decided for ALL u64 timestamps and ALL (i64 secs, nanos<1e9) system times by SMT over the MIR of the real functions (round trip, floor toward the Unix epoch at 100 ns, saturation, no panic); directory-entry codec round trip for all field values by Kani.",
  level_note="std::time calls are summarised by their documented contract on the Unix (i64, u32) representation (listed in evidence.assumptions); other platforms' SystemTime ranges are outside.",
  bounds="timestamps: full width (no bound); entries: all field values, concrete names",
  outside="platforms whose SystemTime is not an (i64, u32) timespec; setters at the API level beyond the bounded directory states")
P("C16",
  level_text="Relational bounded model checking: the same symbolic bytes are parsed in strict and permissive mode in one query; acceptance and the decoded content are compared with an independent statement of the format and of the documented tolerated deviations.",
  level_note="Component-wise (directory entry, header, validators); whole-file open only on small concrete-shape images.",
  bounds="per parser: see harness bounds", outside="combinations of deviations across components; DIFAT-sector deviations")
P("C05",
  level_text="Bounded model checking of the parsers, validators and chain walkers on arbitrary (unconstrained) inputs: no panic, no arithmetic overflow, loop bounds proved by unwinding assertions.",
  level_note="Component-wise; memory exhaustion is only observable as vector-length bounds, allocation sizes are not visible to the solver.",
  bounds="see per-harness bounds", outside="inputs larger than the bounds; allocation sizes (e.g. Vec::with_capacity from an untrusted header field)")
P("C03",
  level_text="Inductive step checks: from a well-formed pre-state (concrete shape, symbolic contents) every allocator / mini allocator / directory / stream-storage step re-establishes an independent byte-level well-formedness predicate written from MS-CFB.",
  level_note="One verified step covers histories of any length whose states stay inside the size bound; shapes are a finite enumerated family.",
  bounds="<= 5 sectors, <= 16 mini sectors, <= 8 directory slots, v3", outside="DIFAT sectors (>109 FAT sectors), second FAT sector, v4 sector size")
P("C02",
  level_text="In every mutating step harness the cache cells changed by the operation are compared with the image bytes decoded by the harness's own little-endian reader, without calling flush (write-through).",
  level_note="Reopening itself (open on the image) is covered only for small images; the argument that equal (image, caches) states behave equally is on paper.",
  bounds="as C03", outside="as C03")
P("C08",
  level_text="Fresh/reused sectors and bytes gained by growing a stream are decided to be zero from pre-states whose free sectors, free mini sectors and slack bytes are arbitrary (symbolic) - the 'earlier history' is the arbitrary content.",
  level_note="Bounds as C03.", bounds="as C03; stream lengths <= 300 bytes in the mini stream, regular streams in dedicated instances", outside="larger streams")
P("C15",
  level_text="Allocation steps are decided to reuse free (mini) sectors and free slots before growing the file, free steps to put exactly the released (mini) sectors on the free lists, and allocation after everything was freed not to extend the MiniFAT / mini stream chains again.",
  level_note="Net-zero cycles follow from the step properties (free list == FREE cells; allocation prefers the free list); the composition is argued, not machine-checked.",
  bounds="as C03", outside="as C03")
P("C07",
  level_text="Step checks: every entry that survives a directory step keeps its slot (stream id) and content; allocator / storage steps leave other streams' cells and bytes untouched (frame conditions).",
  level_note="Handles are bound to slots by construction (stream.rs stores the slot index), so slot stability is the property.",
  bounds="<= 4 siblings, all 5 + 14 tree shapes", outside="more siblings; several open handles interleaved at the cache level")
P("C01",
  level_text="Directory lookup/insert/remove decided equal to an abstract case-insensitive map on every sibling-tree shape with <= 4 entries; name order decided equal to the CFB order; stream storage decided equal to a flat byte array.",
  level_note="API-level composition (path normalisation + pre-checks + one step) is covered for the creation/removal entry points on small states only.",
  bounds="<= 4 siblings per storage, names 1 character in tree steps", outside="larger sibling sets, deep storage nesting")
P("C04",
  level_text="Readers decided to decode exactly the logical content on symbolic valid inputs per component: any FAT link values (next), any valid sibling-tree shape and colouring (lookup), any directory-entry field values (codec), fragmented chains.",
  level_note="Whole-file layouts only through the component harnesses.", bounds="as C01/C03/C16", outside="whole-file symbolic layouts")
P("C11",
  level_text="The checked lookups (Allocator::next, MiniAllocator::next_mini_sector, Chain::new) are total for all u32 arguments over fully symbolic tables; every walk of the write path started from each class of unvalidated start sector, and every storage function (read/write/resize) on each class of directory entry whose start sector and length disagree with its chain, returns Ok or Err without panic and terminates; Stream::write from an arbitrary cache state and set_len with extreme lengths never overflow; open on a file with more sectors than its FAT covers leaves an allocator that can allocate.",
  level_note="Damage classes (start sector class, entry/chain disagreement class, a cyclic mini-stream chain, FAT coverage) are enumerated per instance, not symbolic; histories of several mutating calls on a damaged file are not composed (one call per harness). Six unchecked spots found here were repaired (a041510, 70775ef, 3971f98, b0c4eef).", bounds="FAT/MiniFAT <= 5 cells in the walk harnesses; 4-5 sector images for the entry classes; all u64 for Stream::write / seek arithmetic", outside="larger tables, damage outside the listed classes, multi-call histories on a damaged file")

P("C12",
  level_text="Fault injection as solver variables: the position of the failing read/seek among all underlying calls of a buffer refill is symbolic; Ok results must equal the fault-free content, retries must not return stale bytes.",
  level_note="One fault per scenario, concrete scenario (second refill of a buffered read).", bounds="1 fault, 8-byte window, 100-byte stream", outside="pairs of faults, faults during open/walk")
P("C13",
  level_text="Fault injection for write/seek/flush during write-back (cache level), chain freeing and directory-entry updates: the error surfaces, later calls do not panic, and when the retried call returns Ok the bytes / the entry are in the file image (own decoder).",
  level_note="One fault per scenario; the fault position is enumerated per instance.", bounds="1 fault per scenario, position k enumerated (see harness names)", outside="pairs of faults; faults inside FAT growth, directory growth and the first mini-sector allocation beyond its first two backend calls; retries through another handle")
P("C14", level="other",
  level_text="Sequential lock discipline decided by the solver on the real code with an instrumented lock: no acquisition while a guard of the same lock is live, guards released before returning, no try-lock that panics under contention.  Freedom from deadlock follows for a single lock with no other blocking primitive (argued on paper).",
  level_note="Thread schedules are NOT explored by any engine in this family (Kani does not model threads); progress under real contention is outside.",
  bounds="one call sequence over all read-only methods, iterators and stream operations", outside="real multi-threaded schedules")
P("C18",
  level_text="Chunking: storage/sector/codec harnesses re-run over a backend returning solver-chosen short counts and Interrupted; buffer sizes: cache histories per listed max_buffer_size against the same model.",
  level_note="std::fs::File is not applicable (system calls cannot be executed symbolically); run-to-run determinism holds relative to the stubbed clock.",
  bounds="2 short events per harness; listed buffer sizes", outside="std::fs::File backend; v4 sector size in the cache harness")

# ---------------------------------------------------------------- quick tier: explicit lists
from .registry import QUICK
_RM = ["dir_rm_n4_s8_v3",   # two children, predecessor = left child with a left subtree (top node)
       "dir_rm_n4_s7_v2",   # two children, predecessor deeper than the left child
       "dir_rm_n5_s24_v5",  # two children, deep predecessor WITH a left subtree (five nodes)
       "dir_rm_n3_s2_v2",   # two children, three nodes
       "dir_rm_n4_s2_v2",   # two children, inner node
       "dir_rm_n3_s1_v2",   # left child only
       "dir_rm_n3_s0_v3",   # right child only
       "dir_rm_n3_s0_v1"]   # leaf
_INS = ["dir_ins_n3_s0_g1", "dir_ins_n3_s2_g0"]
_LOOK = ["dir_look_n4_s8", "dir_look_n3_s2"]
_CQ = seqs.quick()
QUICK.update({
    "C01": ["c09_cmp_ascii_2_2", "c09_cmp_sigma_1_2"] + _RM[:4] + _INS[:1] + _LOOK[:1] +
           ["stor_read_cross", "stor_write_mid", "api_ref_parent_is_stream", "api_ref_new_stream_exists", "big_remove_4096"],
    "C02": ["alloc_begin_free13", "alloc_extend_nofree", "alloc_free_chain3", "mini_begin_reuse", "mini_begin_at_128", "mini_free_tail2", "c13_dirent_fault_at3", "open_valid_permissive", "dir_rm_n4_s7_v2",
            "dir_rm_n4_s8_v3", "dir_ins_n3_s0_g1", "dirent_rt_storage_2", "hdr_roundtrip", "api_setters", "difat_second_sector",
            "cache_c_write_flush_write_read_min"],
    "C03": ["alloc_begin_nofree", "alloc_free_after3", "mini_begin_after_empty", "mini_free_cross", "mini_free_all",
            "dir_rm_n4_s8_v3", "dir_rm_n3_s2_v2", "dirent_unallocated_blank", "stor_resize_to_0", "big_5000_to_4096",
            "big_4096_to_100", "difat_first_sector", "difat_second_sector", "hdr_roundtrip", "c09_cmp_sigma_1_2", "big_write_4096_mid"],
    "C04": ["c09_cmp_ascii_2_2", "c09_cmp_sigma_2_2", "alloc_next_total", "chain_new_total"] + _LOOK +
           ["dirent_parse_stream_v3", "dirent_parse_root_v3", "stor_read_cross", "alloc_validate_rel", "open_valid_permissive"],
    "C05": ["alloc_next_total", "chain_new_total", "alloc_validate_rel", "dirent_parse_storage_v3", "dirent_parse_badtype_v3",
            "dirent_parse_stream_v3", "open_counts_alloc"],
    "C06": ["c06_seek_total", "c11_write_total", "c11_resize_u64max", "stor_read_clip"] + _CQ,
    "C07": _RM + _INS[:1] + ["alloc_free_chain3", "stor_write_mid", "big_4096_to_100", "big_remove_4096", "big_write_4096_mid", "api_setters"],
    "C08": ["alloc_begin_free13", "alloc_extend_free3", "stor_resize_in_sector", "stor_resize_reuse", "big_grow_100_to_4200", "big_5000_to_5100"],
    "C09": ["c09_cmp_ascii_1_2", "c09_cmp_ascii_2_2", "c09_cmp_sigma_1_2", "c09_cmp_sigma_2_2", "api_invalid_names",
            "dir_look_n4_s8", "dir_rm_n3_s2_v2"],
    "C10": ["c06_seek_total", "api_invalid_names", "api_ref_new_stream_exists", "api_ref_parent_is_stream",
            "api_ref_remove_stream_on_storage", "api_ref_storage_on_stream", "api_ref_escape_root", "api_ref_clsid_on_stream",
            "cache_c_refused_seeks_change_nothing_min", "cache_c_refused_seeks_with_dirty_buffer_min"],
    "C11": ["alloc_next_total", "chain_new_total", "mini_next_total"] + _WALK_Q +
           ["c11_incons_eoc100_write0", "c11_incons_eoc100_resize50", "c11_incons_short300_write_beyond", "c11_incons_reg_in_mini_resize0",
            "c11_resize_u64max", "c11_write_data_overflow", "c11_write_total", "c11_incons_regshort_resize4500", "c11_root_cycle_append", "open_uncovered_reuse"],
    "C12": ["stor_read_fault_seek0", "stor_read_fault_seek1", "stor_read_fault_read0", "stor_read_cross"] + [n for n in seqs.quick_faults() if "c12" in n],
    "C13": ["c13_free_fault_at0", "c13_free_fault_at2", "c13_free_fault_at4", "c13_dirent_fault_at0", "c13_dirent_fault_at3", "cache_c_write_flush_write_read_min"] + [n for n in seqs.quick_faults() if "c13" in n],
    "C14": ["c14_one_lookup", "c14_lookups", "c14_iter_root", "c14_iter_walk", "c14_iter_storage", "c14_stream_rw", "c14_stream_setlen", "c14_stream_big_window"],
    "C15": ["alloc_begin_free13", "alloc_extend_free3", "alloc_free_chain3", "alloc_free_after3", "mini_begin_reuse",
            "mini_begin_after_empty", "mini_begin_at_128", "mini_free_tail2", "mini_free_all", "dir_ins_n3_s0_g1", "big_4096_to_100"],
    "C16": ["dirent_parse_storage_v3", "dirent_parse_stream_v3", "dirent_parse_root_v3", "dirent_parse_badtype_v3",
            "alloc_validate_rel", "dirent_root_name_lower", "dirent_rt_root", "open_valid_permissive", "open_valid_strict"],
    "C17": ["dirent_rt_storage_2", "dirent_rt_root", "api_setters", "dir_ins_n3_s0_g1", "hdr_roundtrip", "c13_dirent_fault_at3"],
    "C18": ["chunky_init_zero_one", "chunky_init_zero_intr", "chunky_init_fat_one", "chunky_dirent_one", "chunky_stor_first_one", "cache_c_write_longer_than_buffer_min",
            "cache_c_write_longer_than_buffer_b12", "cache_c_read_then_shrink_inside_window_min", "cache_c_read_then_shrink_inside_window_b32", "big_write_migrate"],
})
