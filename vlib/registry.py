"""Which harnesses / SMT obligations decide which property, at which tier,
with which bounds.  See DESIGN.md sections 6 and 9."""

DEFAULT_STUBS = ["std :: fmt :: format"]

# The instrumented single-threaded lock replaces std::sync::RwLock in every
# variant: std's futex RwLock drags contended-path spin loops into every
# acquisition (unwound to the bound by CBMC) and is not the subject of any
# property except C14, where it is modelled anyway.
VARIANTS = {
    "default": {"lock_overlay": True},
    "buf8": {"buffer_min": 8, "lock_overlay": True},
    "lock": {"lock_overlay": True},
}

TRUSTED_BASE = [
    "rustc/Kani 0.68 codegen to GOTO, CBMC 6.11 + cadical (bit-precise, bounded)",
    "cvc5 1.0 / z3 4.8.12 for SMT obligations; MIR->SMT encoder in /verif/vlib/smt.py (validated against the repo's own test vectors at run time)",
    "std, uuid, web-time; fnv/hashbrown replaced by a Vec-backed set in the solver's view (membership only)",
    "overlay rewrites listed in coverage.overlay (error payloads dropped, FnvHashSet, harness modules appended)",
]

GLOBAL_ASSUMPTIONS = [
    "stub: std::fmt::format returns an empty String (error messages are not part of any property; ErrorKind is kept)",
    "overlay: io::Error::new(KIND, payload) -> io::Error::from(KIND) in src/internal/macros.rs and chain.rs (KIND token taken from the real file)",
    "overlay: fnv::FnvHashSet -> Vec-backed set with the same contains/insert/default (never iterated in the crate)",
    "environment: ArrFile backing store is infallible and has room (kani::assume), written contiguously",
    "Kani models the dev profile: overflow checks and debug assertions are on",
    "overlay: std::sync::RwLock -> single-threaded model lock with the same sequential semantics (harness/vlock.rs); it also asserts the C14 lock discipline",
]

H = {}
PROPS = {}


def harness(name, **kw):
    kw.setdefault("tier", "quick")
    H[name] = kw


QUICK = {}  # property -> explicit quick-tier harness list (filled by table.py)


def harnesses_for(prop, tier):
    if tier != "thorough" and prop in QUICK:
        return [n for n in QUICK[prop] if n in H and prop in H[n]["props"]]
    out = []
    for n, h in H.items():
        if h["tier"] == "parked":
            continue  # written, but no verdict was obtained within reach on this machine (DESIGN.md section 13): claimed by no check
        if prop in h["props"] and (tier == "thorough" or h["tier"] == "quick"):
            out.append(n)
    return out


ENGINES = [
    {"name": "kani-cbmc", "path": "/verif/vlib/kani.py + /verif/harness/*.rs",
     "serves_properties": [], "kind_free_text": "Kani 0.68 #[kani::proof] harnesses compiled together with the crate's real source (overlay copy of /repo's working tree), decided by CBMC 6.11 + cadical; counterexamples replayed natively with Kani concrete playback"},
    {"name": "mir-smt", "path": "/verif/vlib/smt.py",
     "serves_properties": [], "kind_free_text": "nightly MIR dump of the real functions translated to SMT-LIB2 bit-vectors; cvc5 --solve-bv-as-int=sum cross-checked with z3"},
]
NOTES = "See DESIGN.md. Exit 2 = inconclusive (never reported as pass)."
NOT_APPLICABLE = {("C%02d" % i): "check not built yet (work in progress; see DESIGN.md)" for i in range(1, 19)}


def P(pid, **kw):
    kw.setdefault("level", "model_checking")
    kw.setdefault("smt", [])
    PROPS[pid] = kw


from . import table  # noqa: E402  (fills H and PROPS)
