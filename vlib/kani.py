"""Runs Kani harnesses on the overlay and parses CBMC's verdicts."""
import os
import re
import resource
import subprocess
import time

ENV = dict(os.environ)
ENV["CARGO_NET_OFFLINE"] = "true"
ENV.setdefault("CARGO_TERM_COLOR", "never")


def _limits(mem_gb):
    def f():
        b = int(mem_gb * (1 << 30))
        resource.setrlimit(resource.RLIMIT_AS, (b, b))
        os.setsid()
    return f


class Result:
    def __init__(self, name):
        self.name = name
        self.status = "inconclusive"  # success | failed | inconclusive
        self.reason = ""
        self.failed = []   # dicts: check, description, location, function
        self.covers = {}   # description -> SATISFIED/UNSATISFIABLE/UNREACHABLE
        self.stubs = []
        self.n_checks = 0
        self.n_failed = 0
        self.symex_s = None
        self.solver_s = 0.0
        self.verif_s = None
        self.wall_s = 0.0
        self.log = None
        self.playback = []  # list of (kind, description, test_name, code)
        self.unwind_failed = False
        self.unsupported = []
        self.cached = False
        self.decided_at = None

    def to_json(self):
        return {
            "harness": self.name, "status": self.status, "reason": self.reason,
            "checks": self.n_checks, "failed_checks": self.failed, "covers": self.covers,
            "stubs": self.stubs, "symex_s": self.symex_s, "solver_s": round(self.solver_s, 3),
            "kani_verification_s": self.verif_s, "wall_s": round(self.wall_s, 1),
            "unwinding_assertion_failed": self.unwind_failed,
            "reused_verdict": self.cached, "decided_at": self.decided_at,
        }


CHECK_RE = re.compile(
    r"^Check (\d+): (.*)\n\t - Status: (\S+)\n\t - Description: \"(.*)\"\n(?:\t - Location: (.*)\n)?",
    re.M)


def parse(text, res):
    for m in re.finditer(r"^\s+- Stub: (.*)$", text, re.M):
        res.stubs.append(m.group(1).strip())
    m = re.search(r"Runtime Symex: ([0-9.e+-]+)s", text)
    if m:
        res.symex_s = float(m.group(1))
    res.solver_s = sum(float(x) for x in re.findall(r"Runtime decision procedure: ([0-9.e+-]+)s", text))
    m = re.search(r"Verification Time: ([0-9.e+-]+)s", text)
    if m:
        res.verif_s = float(m.group(1))
    for m in CHECK_RE.finditer(text):
        num, cname, status, desc, loc = m.groups()
        if ".cover." in cname or cname.endswith(".cover") or status in ("SATISFIED", "UNSATISFIABLE"):
            res.covers[desc] = status
            continue
        res.n_checks += 1
        if status == "FAILURE":
            func = ""
            file_line = ""
            if loc:
                mm = re.match(r"(.*?) in function (.*)$", loc.strip())
                if mm:
                    file_line, func = mm.group(1), mm.group(2)
                else:
                    file_line = loc.strip()
            res.failed.append({"check": cname, "description": desc, "location": file_line, "function": func})
            if "unwinding assertion" in desc:
                res.unwind_failed = True
    m = re.search(r"\*\* (\d+) of (\d+) failed", text)
    if m:
        res.n_failed = int(m.group(1))
        res.n_checks = int(m.group(2))
    if "VERIFICATION:- SUCCESSFUL" in text:
        res.status = "success"
    elif "VERIFICATION:- FAILED" in text:
        if re.search(r"Status: ERROR|CBMC failed|out of memory|std::bad_alloc|Killed", text) and not res.failed:
            res.status = "inconclusive"
            res.reason = "CBMC error / out of memory"
        elif res.failed:
            res.status = "failed"
        else:
            res.status = "inconclusive"
            res.reason = "FAILED without parsed failed checks"
    else:
        res.status = "inconclusive"
        m = re.search(r"^error(\[E\d+\])?: .*$", text, re.M)
        res.reason = ("compile/driver error: " + m.group(0)) if m else "no verdict line"
    # playback tests
    for m in re.finditer(
            r"Concrete playback unit test for `(.*?)`:\n```\n(.*?)\n```", text, re.S):
        code = m.group(2)
        k = re.search(r"/// Check for `(\w+)`: \"(.*?)\"", code)
        t = re.search(r"fn (kani_concrete_playback_\w+)\(\)", code)
        res.playback.append((k.group(1) if k else "?", k.group(2) if k else "?", t.group(1) if t else "?", code))
    return res


_QUAL = {}
_TREE_HASH = {}
CMD_VERSION = "kani-flags-v2: -Z stubbing --no-memory-safety-checks --no-assertion-reach-checks field-sens"


def _sha(paths, extra=b""):
    import hashlib
    h = hashlib.sha256()
    for f in paths:
        h.update(f.encode())
        try:
            h.update(open(f, "rb").read())
        except OSError:
            h.update(b"<missing>")
    h.update(extra)
    return h.hexdigest()


def _walk(root):
    out = []
    for dp, dn, fn in os.walk(root):
        dn.sort()
        for f in sorted(fn):
            if not f.endswith(".pyc"):
                out.append(os.path.join(dp, f))
    return out


_CRATE_OF = {}  # variant key -> built overlay crate dir (registered by the runner)


def register_overlay(variant_key, crate_dir):
    _CRATE_OF[variant_key] = crate_dir


def tree_hash(variant_key, harness=None):
    """Content hash of everything a verdict of `harness` depends on, taken from
    the BUILT overlay (so it reflects /repo's current sources after the counted
    rewrites, the generated files, and the harness tree): every file of
    crate/src except harness modules (internal/verif/h_*.rs) that the harness's
    own module does not import, directly or transitively."""
    key = (variant_key, harness)
    if key in _TREE_HASH:
        return _TREE_HASH[key]
    crate = _CRATE_OF.get(variant_key)
    if crate is None:
        raise KeyError("overlay for variant %r not registered" % (variant_key,))
    src = os.path.join(crate, "src")
    vdir = os.path.join(src, "internal", "verif")
    keep = None
    if harness is not None:
        stem = qualify(harness).split("::")[-2]
        todo, keep = [stem], set()
        while todo:
            m = todo.pop()
            if m in keep:
                continue
            keep.add(m)
            fp = os.path.join(vdir, m + ".rs")
            if os.path.exists(fp):
                txt = open(fp).read()
                for dep in re.findall(r"use super::(h_\w+)", txt):
                    todo.append(dep)
                for inc in re.findall(r'include!\("(h_\w+)\.rs"\)', txt):
                    todo.append(inc)
    files = []
    for f in _walk(src):
        rel = os.path.relpath(f, src)
        base = os.path.basename(f)
        if os.path.dirname(f) == vdir and base.startswith("h_") and keep is not None and base[:-3] not in keep:
            continue
        if os.path.dirname(f) == vdir and base == "mods.rs":
            continue  # only lists harness modules
        files.append((rel, f))
    import hashlib
    h = hashlib.sha256()
    for rel, f in sorted(files):
        h.update(rel.encode())
        h.update(open(f, "rb").read())
    for extra in ("Cargo.toml", "Cargo.lock"):
        h.update(open(os.path.join(crate, extra), "rb").read())
    h.update(b"kani-0.68.0")
    _TREE_HASH[key] = h.hexdigest()
    return _TREE_HASH[key]


def cache_path(name, variant_key, flags):
    verif = os.path.dirname(os.path.dirname(os.path.abspath(__file__)))
    d = os.path.join(verif, "build", "cache")
    os.makedirs(d, exist_ok=True)
    import hashlib
    k = hashlib.sha256((tree_hash(variant_key, name) + "|" + name + "|" + repr(flags) + "|" + CMD_VERSION).encode()).hexdigest()[:32]
    return os.path.join(d, "%s-%s.json" % (name, k))


def cache_load(path):
    import json
    try:
        d = json.load(open(path))
    except Exception:
        return None
    r = Result(d["name"])
    for k, v in d.items():
        setattr(r, k, v)
    r.cached = True
    return r


def cache_store(path, r):
    import json
    if r.status not in ("success", "failed"):
        return
    d = {k: getattr(r, k) for k in ("name", "status", "reason", "failed", "covers", "stubs", "n_checks", "n_failed",
                                    "symex_s", "solver_s", "verif_s", "wall_s", "log", "unwind_failed")}
    d["decided_at"] = time.strftime("%Y-%m-%dT%H:%M:%SZ", time.gmtime())
    json.dump(d, open(path, "w"))


_QLOCK = None


def qualify(name):
    """Fully qualified harness path, found by scanning /verif/harness (thread-safe)."""
    global _QLOCK
    import threading
    if _QLOCK is None:
        _QLOCK = threading.Lock()
    with _QLOCK:
        if not _QUAL:
            q = {}
            hd = os.path.join(os.path.dirname(os.path.dirname(os.path.abspath(__file__))), "harness")
            for fn in sorted(os.listdir(hd)):
                if fn.endswith(".rs"):
                    txt = open(os.path.join(hd, fn)).read()
                    for m in re.finditer(r"^\s*(?:pub(?:\(crate\))? )?fn (\w+)\(\)", txt, re.M):
                        q.setdefault(m.group(1), "internal::verif::%s::%s" % (fn[:-3], m.group(1)))
                    # macro-generated harnesses: some_macro!(harness_name, ...)
                    for m in re.finditer(r"^\w+!\(\s*(\w+)\s*[,)]", txt, re.M):
                        q.setdefault(m.group(1), "internal::verif::%s::%s" % (fn[:-3], m.group(1)))
            _QUAL.update(q)
    if name not in _QUAL:
        if re.match(r"dir_(rm|ins|look)_", name):
            return "internal::verif::h_dir::" + name  # generated by vlib/shapes.py
        if re.match(r"cache_(c|p|f)_", name):
            return "internal::verif::h_cache::" + name  # generated by vlib/seqs.py
        raise KeyError("harness %s is registered but not defined in /verif/harness" % name)
    return _QUAL[name]


def run_harness(crate_dir, target_dir, name, timeout_s, mem_gb, log_path,
                memsafe=False, playback=None, extra=None, unwind=None, fs=4096, reach=False):
    """One cargo-kani process for one harness (exact name match)."""
    cmd = ["cargo", "kani", "-Z", "stubbing", "--harness", qualify(name), "--exact", "--target-dir", target_dir]
    if not memsafe:
        cmd += ["--no-memory-safety-checks"]
    # Kani's per-assertion reachability checks add one cover goal per assertion
    # (~1000 per harness) and CBMC builds a trace for each satisfied goal: 5x the
    # run time.  Vacuity is guarded by the explicit kani::cover! witnesses instead.
    if not reach:
        cmd += ["--no-assertion-reach-checks"]
    if playback:
        cmd += ["-Z", "concrete-playback", "--concrete-playback=" + playback]
    if unwind:
        cmd += ["--default-unwind", str(unwind)]
    if extra:
        cmd += extra
    # CBMC only constant-propagates through arrays it treats field-sensitively
    # (default: <= 64 elements).  The byte images are larger; raising the limit
    # turns minutes of symbolic execution into seconds.  Must be the last flag.
    cmd += ["-Z", "unstable-options", "--cbmc-args", "--max-field-sensitivity-array-size", str(fs)]
    res = Result(name)
    res.log = log_path
    t0 = time.time()
    with open(log_path, "w") as lf:
        try:
            p = subprocess.Popen(cmd, cwd=crate_dir, stdout=lf, stderr=subprocess.STDOUT, env=ENV,
                                 preexec_fn=_limits(mem_gb))
            try:
                p.wait(timeout=timeout_s)
            except subprocess.TimeoutExpired:
                _kill_group(p)
                res.wall_s = time.time() - t0
                res.status = "inconclusive"
                res.reason = "timeout after %ds" % timeout_s
                return res
        except Exception as e:  # pragma: no cover
            res.reason = "spawn failed: %r" % (e,)
            return res
    res.wall_s = time.time() - t0
    text = open(log_path, errors="replace").read()
    parse(text, res)
    return res


def _kill_group(p):
    import signal
    try:
        os.killpg(os.getpgid(p.pid), signal.SIGKILL)
    except Exception:
        pass
    try:
        p.wait(timeout=10)
    except Exception:
        pass


def native_playback(crate_dir, test_filter, timeout_s=900, release=False):
    """Runs inplace-generated playback tests natively.  Returns (ran, failed_names, text)."""
    cmd = ["cargo", "kani", "playback", "-Z", "concrete-playback"]
    if release:
        cmd += ["--release"]
    cmd += ["--", test_filter]
    env = dict(ENV)
    env["RUST_BACKTRACE"] = "0"
    try:
        p = subprocess.run(cmd, cwd=crate_dir, capture_output=True, text=True, env=env, timeout=timeout_s)
    except subprocess.TimeoutExpired:
        return False, [], "playback timeout"
    out = p.stdout + p.stderr
    failed = re.findall(r"^test (\S+) \.\.\. FAILED", out, re.M)
    ran = bool(re.search(r"^test result:", out, re.M))
    return ran, failed, out
