"""Engine S: translate loop-free integer kernels from the nightly compiler's MIR
dump of /repo's *current* source into SMT-LIB2 bit-vector terms and discharge
obligations with cvc5 (--solve-bv-as-int=sum) cross-checked by a second
configuration.  Any MIR construct the encoder does not know makes the
obligation INCONCLUSIVE (never skipped).  See DESIGN.md section 2."""
import json
import os
import re
import shutil
import subprocess
import tempfile
import time

VERIF = os.path.dirname(os.path.dirname(os.path.abspath(__file__)))
REPO = os.environ.get("VERIF_REPO", "/repo")


class Unknown(Exception):
    pass


# --------------------------------------------------------------------- terms
def bv(v, n):
    return ("(_ bv%d %d)" % (v % (1 << n), n), ("bv", n))


def tt():
    return ("true", "bool")


def ff():
    return ("false", "bool")


def app(op, sort, *args):
    return ("(%s %s)" % (op, " ".join(a[0] for a in args)), sort)


def width(t):
    assert t[1] != "bool", t
    return t[1][1]


def ite(c, a, b):
    if isinstance(a, dict) or isinstance(b, dict):
        assert isinstance(a, dict) and isinstance(b, dict) and a.keys() == b.keys(), (a, b)
        return {k: ite(c, a[k], b[k]) for k in a}
    if isinstance(a, list):
        return [ite(c, x, y) for x, y in zip(a, b)]
    if a == b:
        return a
    return app("ite", a[1], c, a, b)


def AND(*xs):
    xs = [x for x in xs if x[0] != "true"]
    if not xs:
        return tt()
    if len(xs) == 1:
        return xs[0]
    return app("and", "bool", *xs)


def OR(*xs):
    xs = [x for x in xs if x[0] != "false"]
    if not xs:
        return ff()
    if len(xs) == 1:
        return xs[0]
    return app("or", "bool", *xs)


def NOT(x):
    if x[0] == "true":
        return ff()
    if x[0] == "false":
        return tt()
    return app("not", "bool", x)


def zext(t, n):
    w = width(t)
    if n == w:
        return t
    return ("((_ zero_extend %d) %s)" % (n - w, t[0]), ("bv", n))


def sext(t, n):
    w = width(t)
    if n == w:
        return t
    return ("((_ sign_extend %d) %s)" % (n - w, t[0]), ("bv", n))


def extract(t, hi, lo):
    return ("((_ extract %d %d) %s)" % (hi, lo, t[0]), ("bv", hi - lo + 1))


def eq(a, b):
    return app("=", "bool", a, b)


INT_TYPES = {"u8": (8, False), "u16": (16, False), "u32": (32, False), "u64": (64, False), "u128": (128, False),
             "usize": (64, False), "i8": (8, True), "i16": (16, True), "i32": (32, True), "i64": (64, True),
             "i128": (128, True), "isize": (64, True)}


# ---------------------------------------------------------------- MIR parser
class Fn:
    def __init__(self, name, sig):
        self.name = name
        self.sig = sig
        self.args = []
        self.locals = {}
        self.blocks = {}
        self.src = []


def dump_mir():
    """MIR of /repo's current working tree (overflow checks on, debug assertions off)."""
    root = tempfile.mkdtemp(prefix="verif-mir-", dir=os.environ.get("VERIF_TMP", "/tmp"))
    try:
        crate = os.path.join(root, "crate")
        os.makedirs(crate)
        shutil.copytree(os.path.join(REPO, "src"), os.path.join(crate, "src"))
        for f in ("Cargo.toml", "Cargo.lock"):
            shutil.copy(os.path.join(REPO, f), os.path.join(crate, f))
        os.makedirs(os.path.join(crate, "benches"))
        open(os.path.join(crate, "benches", "benchmark.rs"), "w").write("fn main() {}\n")
        env = dict(os.environ)
        env["CARGO_NET_OFFLINE"] = "true"
        p = subprocess.run(
            ["cargo", "+nightly", "rustc", "--offline", "--lib", "--target-dir", os.path.join(root, "t"), "--",
             "-Zunpretty=mir", "-C", "debug-assertions=off", "-C", "overflow-checks=on"],
            cwd=crate, capture_output=True, text=True, env=env, timeout=600)
        if p.returncode != 0 or "fn " not in p.stdout:
            raise Unknown("MIR dump failed: " + p.stderr[-400:])
        return p.stdout
    finally:
        shutil.rmtree(root, ignore_errors=True)


def parse_mir(text):
    fns = {}
    consts = {}
    for m in re.finditer(r"^const (\S+): (\w+) = const (-?\d+)_(\w+);", text, re.M):
        consts[m.group(1)] = (int(m.group(3)), m.group(4))
    cur = None
    bb = None
    for line in text.split("\n"):
        m = re.match(r"^fn (.*?)\((.*)\) -> (.*) \{$", line)
        if m:
            cur = Fn(m.group(1), line)
            cur.ret = m.group(3)
            for a in re.finditer(r"(_\d+): ([^,]+(?:<[^>]*>)?)", m.group(2)):
                cur.args.append(a.group(1))
                cur.locals[a.group(1)] = a.group(2).strip()
            fns.setdefault(cur.name, cur)
            bb = None
            continue
        m = re.match(r"^const (.*?): (.*) = \{$", line)
        if m:
            cur = Fn(m.group(1), line)
            cur.ret = m.group(2)
            fns.setdefault(cur.name, cur)
            bb = None
            continue
        if cur is None:
            continue
        if line == "}":
            cur = None
            continue
        cur.src.append(line)
        m = re.match(r"^\s+let (?:mut )?(_\d+): (.*);$", line)
        if m:
            cur.locals[m.group(1)] = m.group(2)
            continue
        m = re.match(r"^\s+(bb\d+)(?: \(cleanup\))?: \{$", line)
        if m:
            bb = m.group(1)
            cur.blocks[bb] = []
            continue
        if bb and line.strip() == "}":
            bb = None
            continue
        if bb:
            s = line.strip()
            if s:
                cur.blocks[bb].append(s)
    return fns, consts


def find_fn(fns, suffix):
    c = [f for n, f in fns.items() if n == suffix or n.endswith("::" + suffix)]
    if len(c) != 1:
        raise Unknown("function %s: %d candidates in MIR" % (suffix, len(c)))
    return c[0]


# ------------------------------------------------------------ symbolic exec
class Path:
    def __init__(self, cond, env):
        self.cond = cond
        self.env = env
        self.panics = []  # list of (cond, message)


def split_args(s):
    out, depth, cur = [], 0, ""
    for ch in s:
        if ch in "([{<":
            depth += 1
        elif ch in ")]}>":
            depth -= 1
        if ch == "," and depth == 0:
            out.append(cur.strip())
            cur = ""
        else:
            cur += ch
    if cur.strip():
        out.append(cur.strip())
    return out


class Exec:
    def __init__(self, fns, consts, summaries):
        self.fns = fns
        self.consts = consts
        self.summaries = summaries
        self.encoded = set()
        self.used_summaries = set()

    # places -------------------------------------------------------------
    def parse_place(self, s):
        s = s.strip()
        if re.fullmatch(r"_\d+", s):
            return ("local", s)
        if s.startswith("(*") and s.endswith(")"):
            return ("deref", self.parse_place(s[2:-1]))
        if s.startswith("(") and s.endswith(")"):
            inner = s[1:-1]
            m = re.match(r"^(.*) as (\w+)$", inner)
            if m and self._balanced(m.group(1)):
                return ("downcast", self.parse_place(m.group(1)), m.group(2))
            # field: PLACE.K: TYPE  (split at the last top-level '.K:')
            depth = 0
            for i in range(len(inner) - 1, -1, -1):
                ch = inner[i]
                if ch in ")>]":
                    depth += 1
                elif ch in "(<[":
                    depth -= 1
                elif ch == "." and depth == 0:
                    mm = re.match(r"^\.(\w+): (.*)$", inner[i:])
                    if mm:
                        return ("field", self.parse_place(inner[:i]), mm.group(1), mm.group(2))
            raise Unknown("place: " + s)
        raise Unknown("place: " + s)

    @staticmethod
    def _balanced(s):
        d = 0
        for ch in s:
            if ch in "(<[":
                d += 1
            elif ch in ")>]":
                d -= 1
            if d < 0:
                return False
        return d == 0

    def read_place(self, pl, env):
        k = pl[0]
        if k == "local":
            if pl[1] not in env:
                raise Unknown("read of unassigned local " + pl[1])
            return env[pl[1]]
        if k == "deref":
            v = self.read_place(pl[1], env)
            if isinstance(v, dict) and "ref" in v:
                return v["ref"]
            raise Unknown("deref of non-reference")
        if k == "downcast":
            v = self.read_place(pl[1], env)
            return v["variants"][pl[2]]
        if k == "field":
            v = self.read_place(pl[1], env)
            f = pl[2]
            if isinstance(v, list):
                return v[int(f)]
            if isinstance(v, dict):
                if f in v:
                    return v[f]
                if "fields" in v:
                    return v["fields"][int(f)]
            raise Unknown("field %s of %r" % (f, v))
        raise Unknown("place kind")

    def write_place(self, pl, env, val):
        if pl[0] == "local":
            env[pl[1]] = val
            return
        if pl[0] == "field":
            base = self.read_place(pl[1], env) if self._has(pl[1], env) else None
            f = pl[2]
            if base is None:
                base = {}
            if isinstance(base, list):
                base = list(base)
                base[int(f)] = val
            else:
                base = dict(base)
                base[f] = val
            self.write_place(pl[1], env, base)
            return
        raise Unknown("write to place " + repr(pl))

    def _has(self, pl, env):
        try:
            self.read_place(pl, env)
            return True
        except Exception:
            return False

    # operands -----------------------------------------------------------
    def operand(self, s, env):
        s = s.strip()
        if s.startswith("copy ") or s.startswith("move "):
            return self.read_place(self.parse_place(s[5:]), env)
        if s.startswith("const "):
            c = s[6:].strip()
            m = re.fullmatch(r"(-?\d+)_(\w+)", c)
            if m:
                w, _ = INT_TYPES[m.group(2)]
                return bv(int(m.group(1)), w)
            if c in ("true", "false"):
                return tt() if c == "true" else ff()
            m = re.fullmatch(r"(?:core::num::<impl )?([iu](?:8|16|32|64|128|size))>?::(MIN|MAX)", c)
            if m:
                w, sg = INT_TYPES[m.group(1)]
                if m.group(2) == "MIN":
                    return bv((1 << (w - 1)) if sg else 0, w)
                return bv(((1 << (w - 1)) - 1) if sg else ((1 << w) - 1), w)
            for name, (v, ty) in self.consts.items():
                if c == name or c.endswith("::" + name):
                    return bv(v, INT_TYPES[ty][0])
            if c in self.summaries.get("consts", {}):
                self.used_summaries.add("const " + c)
                return self.summaries["consts"][c]
            m = re.fullmatch(r"(\S+)::promoted\[(\d+)\]", c)
            if m:
                return self.promoted(m.group(1), int(m.group(2)))
            raise Unknown("constant: " + c)
        raise Unknown("operand: " + s)

    def promoted(self, fname, idx):
        key = "%s::promoted[%d]" % (fname.split("::")[-1], idx)
        c = [f for n, f in self.fns.items() if n == key or n.endswith("::" + key)]
        if len(c) != 1:
            raise Unknown("promoted constant %s: %d candidates" % (key, len(c)))
        res, pn = self.call(c[0], [], 1)
        if pn or len(res) != 1:
            raise Unknown("promoted constant %s is not a single straight-line value" % key)
        return res[0][1]

    # rvalues -------------------------------------------------------------
    def rvalue(self, rhs, env, ty, panics, cond):
        rhs = rhs.strip()
        m = re.fullmatch(r"(\w+)\((.*)\)", rhs)
        BIN = {"Add": "bvadd", "Sub": "bvsub", "Mul": "bvmul", "BitAnd": "bvand", "BitOr": "bvor", "BitXor": "bvxor"}
        if m and m.group(1) in BIN or (m and m.group(1) in ("Div", "Rem", "Shl", "Shr", "Eq", "Ne", "Lt", "Le", "Gt", "Ge",
                                                                "AddWithOverflow", "SubWithOverflow", "MulWithOverflow",
                                                                "Not", "Neg", "AddUnchecked", "SubUnchecked")):
            op = m.group(1)
            args = [self.operand(a, env) for a in split_args(m.group(2))]
            signed = self._signed_of(split_args(m.group(2))[0], env)
            if op in BIN:
                return app(BIN[op], args[0][1], *args)
            if op in ("AddUnchecked", "SubUnchecked"):
                return app("bvadd" if op[0] == "A" else "bvsub", args[0][1], *args)
            if op == "Div":
                return app("bvsdiv" if signed else "bvudiv", args[0][1], *args)
            if op == "Rem":
                return app("bvsrem" if signed else "bvurem", args[0][1], *args)
            if op in ("Eq", "Ne"):
                e = eq(args[0], args[1])
                return e if op == "Eq" else NOT(e)
            if op in ("Lt", "Le", "Gt", "Ge"):
                o = {"Lt": "lt", "Le": "le", "Gt": "gt", "Ge": "ge"}[op]
                return app("bv%s%s" % ("s" if signed else "u", o), "bool", *args)
            if op == "Not":
                return NOT(args[0]) if args[0][1] == "bool" else app("bvnot", args[0][1], args[0])
            if op == "Neg":
                return app("bvneg", args[0][1], args[0])
            if op.endswith("WithOverflow"):
                w = width(args[0])
                ext = sext if signed else zext
                a, b = ext(args[0], 2 * w), ext(args[1], 2 * w)
                o = {"Add": "bvadd", "Sub": "bvsub", "Mul": "bvmul"}[op[:3]]
                wide = app(o, ("bv", 2 * w), a, b)
                res = extract(wide, w - 1, 0)
                back = ext(res, 2 * w)
                return [res, NOT(eq(back, wide))]
            raise Unknown("binop " + op)
        m = re.fullmatch(r"(.*) as (\w+) \(IntToInt\)", rhs)
        if m:
            v = self.operand(m.group(1), env)
            signed = self._signed_of(m.group(1), env)
            tw, _ = INT_TYPES[m.group(2)]
            w = width(v)
            if tw <= w:
                return extract(v, tw - 1, 0)
            return sext(v, tw) if signed else zext(v, tw)
        if rhs.startswith("&mut ") or rhs.startswith("&"):
            p = rhs[5:] if rhs.startswith("&mut ") else rhs[1:]
            return {"ref": self.read_place(self.parse_place(p), env)}
        m = re.fullmatch(r"discriminant\((.*)\)", rhs)
        if m:
            v = self.read_place(self.parse_place(m.group(1)), env)
            return zext(v["disc"], 64) if width(v["disc"]) < 64 else v["disc"]
        if rhs.startswith("copy ") or rhs.startswith("move ") or rhs.startswith("const "):
            return self.operand(rhs, env)
        m = re.fullmatch(r"\((.*)\)", rhs)
        if m and not re.match(r"^\(.* as ", rhs):
            return [self.operand(a, env) for a in split_args(m.group(1))]
        raise Unknown("rvalue: " + rhs)

    def _signed_of(self, opnd, env):
        opnd = opnd.strip()
        m = re.fullmatch(r"const -?\d+_(\w+)", opnd)
        if m:
            return INT_TYPES[m.group(1)][1]
        m = re.match(r"^(?:copy|move) (.*)$", opnd)
        if m:
            pl = self.parse_place(m.group(1))
            ty = self._type_of(pl)
            if ty in INT_TYPES:
                return INT_TYPES[ty][1]
        return False

    def _type_of(self, pl):
        if pl[0] == "local":
            return self.cur.locals.get(pl[1], "?")
        if pl[0] == "field":
            return pl[3]
        return "?"

    # execution ------------------------------------------------------------
    def call(self, fn, args, depth=0):
        """Returns list of (cond, retval) plus accumulates panics: list of (cond,msg)."""
        if depth > 6:
            raise Unknown("call depth")
        self.encoded.add(fn.name)
        env = {a: v for a, v in zip(fn.args, args)}
        results = []
        panics = []
        self._run(fn, "bb0", tt(), env, results, panics, depth, 0)
        return results, panics

    def _run(self, fn, bbname, cond, env, results, panics, depth, steps):
        if steps > 200:
            raise Unknown("loop or too long path in " + fn.name)
        saved = getattr(self, "cur", None)
        self.cur = fn
        try:
            stmts = fn.blocks.get(bbname)
            if stmts is None:
                raise Unknown("missing block " + bbname)
            for s in stmts[:-1]:
                self.stmt(s, env)
            t = stmts[-1]
            if t == "return;":
                results.append((cond, env.get("_0")))
                return
            if t == "unreachable;":
                return
            m = re.fullmatch(r"goto -> (bb\d+);", t)
            if m:
                return self._run(fn, m.group(1), cond, env, results, panics, depth, steps + 1)
            m = re.fullmatch(r"switchInt\((.*)\) -> \[(.*)\];", t)
            if m:
                v = self.operand(m.group(1), env)
                if v[1] == "bool":
                    v = ite(v, bv(1, 8), bv(0, 8))
                w = width(v)
                others = []
                for arm in split_args(m.group(2)):
                    k, tgt = [x.strip() for x in arm.split(":")]
                    if k == "otherwise":
                        c = AND(*[NOT(o) for o in others])
                    else:
                        c = eq(v, bv(int(k), w))
                        others.append(c)
                    self._run(fn, tgt, AND(cond, c), dict(env), results, panics, depth, steps + 1)
                return
            m = re.fullmatch(r"assert\((!?)(.*?), \"(.*?)\".*\) -> \[success: (bb\d+), unwind.*\];", t)
            if m:
                v = self.operand(m.group(2), env)
                okc = NOT(v) if m.group(1) == "!" else v
                panics.append((AND(cond, NOT(okc)), fn.name.split("::")[-1] + ": " + m.group(3)))
                return self._run(fn, m.group(4), AND(cond, okc), env, results, panics, depth, steps + 1)
            m = re.fullmatch(r"(.*?) = (.*?)\((.*)\) -> \[return: (bb\d+), unwind.*\];", t)
            if m:
                dst, callee, argstr, nxt = m.groups()
                args = [self.operand(a, env) for a in split_args(argstr)]
                outs = self.invoke(callee, args, panics, cond, depth)
                for c, val in outs:
                    e2 = dict(env)
                    self.write_place(self.parse_place(dst), e2, val)
                    self._run(fn, nxt, AND(cond, c), e2, results, panics, depth, steps + 1)
                return
            m = re.fullmatch(r"drop\(.*\) -> \[return: (bb\d+), unwind.*\];", t)
            if m:
                return self._run(fn, m.group(1), cond, env, results, panics, depth, steps + 1)
            raise Unknown("terminator: " + t)
        finally:
            self.cur = saved

    def stmt(self, s, env):
        if s.startswith("StorageLive") or s.startswith("StorageDead") or s.startswith("nop") or s.startswith("FakeRead") \
                or s.startswith("PlaceMention") or s.startswith("AscribeUserType") or s.startswith("Retag"):
            return
        m = re.fullmatch(r"(.*?) = (.*);", s)
        if not m:
            raise Unknown("statement: " + s)
        dst = self.parse_place(m.group(1))
        val = self.rvalue(m.group(2), env, None, None, None)
        self.write_place(dst, env, val)

    def invoke(self, callee, args, panics, cond, depth):
        callee = callee.strip()
        # crate function present in the MIR?
        short = callee.split("::")[-1]
        cands = [f for n, f in self.fns.items() if n == callee or (("::" not in callee) and n == short)]
        if len(cands) == 1 and callee not in self.summaries["fns"]:
            res, pn = self.call(cands[0], args, depth + 1)
            for c, msg in pn:
                panics.append((AND(cond, c), msg))
            return res
        if callee in self.summaries["fns"]:
            self.used_summaries.add(callee)
            return self.summaries["fns"][callee](args, panics, cond)
        m = re.fullmatch(r"<([iu](?:8|16|32|64|128|size)) as TryFrom<([iu](?:8|16|32|64|128|size))>>::try_from", callee)
        if m:
            # trusted summary: Ok(v as T) exactly when the mathematical value of v fits T, Err otherwise
            self.used_summaries.add("TryFrom<%s> for %s" % (m.group(2), m.group(1)))
            (tw, tsg), (sw, ssg) = INT_TYPES[m.group(1)], INT_TYPES[m.group(2)]
            v = args[0]
            W = max(tw, sw) + 1
            wide = sext(v, W) if ssg else zext(v, W)
            lo = -(1 << (tw - 1)) if tsg else 0
            hi = ((1 << (tw - 1)) - 1) if tsg else ((1 << tw) - 1)
            fits = AND(app("bvsge", "bool", wide, bv(lo & ((1 << W) - 1), W)), app("bvsle", "bool", wide, bv(hi, W)))
            res = extract(wide, tw - 1, 0)
            return [(tt(), {"disc": ite(fits, bv(0, 64), bv(1, 64)), "variants": {"Ok": [res], "Err": [{"unit": bv(0, 8)}]}})]
        raise Unknown("call to unknown function: " + callee)


# ----------------------------------------------------- std summaries (trusted)
NS = 1_000_000_000


def _dur(secs, nanos):
    return {"secs": secs, "nanos": nanos}


def std_summaries():
    def sat_add(a, p, c):
        x, y = a
        w = width(x)
        s = app("bvadd", ("bv", w + 1), zext(x, w + 1), zext(y, w + 1))
        ovf = eq(extract(s, w, w), bv(1, 1))
        return [(tt(), ite(ovf, bv((1 << w) - 1, w), extract(s, w - 1, 0)))]

    def sat_sub(a, p, c):
        x, y = a
        w = width(x)
        return [(tt(), ite(app("bvult", "bool", x, y), bv(0, w), app("bvsub", ("bv", w), x, y)))]

    def sat_mul(a, p, c):
        x, y = a
        w = width(x)
        m = app("bvmul", ("bv", 2 * w), zext(x, 2 * w), zext(y, 2 * w))
        ovf = NOT(eq(extract(m, 2 * w - 1, w), bv(0, w)))
        return [(tt(), ite(ovf, bv((1 << w) - 1, w), extract(m, w - 1, 0)))]

    def dur_as_secs(a, p, c):
        return [(tt(), a[0]["ref"]["secs"])]

    def dur_subsec(a, p, c):
        return [(tt(), a[0]["ref"]["nanos"])]

    def dur_new(a, p, c):
        secs, nanos = a
        big = app("bvuge", "bool", nanos, bv(NS, 32))
        carry = zext(app("bvudiv", ("bv", 32), nanos, bv(NS, 32)), 64)
        s2 = app("bvadd", ("bv", 65), zext(secs, 65), zext(carry, 65))
        p.append((AND(c, big, eq(extract(s2, 64, 64), bv(1, 1))), "Duration::new: overflow in Duration::new"))
        return [(tt(), _dur(ite(big, extract(s2, 63, 0), secs),
                            ite(big, app("bvurem", ("bv", 32), nanos, bv(NS, 32)), nanos)))]

    def st_duration_since(a, p, c):
        st = a[0]["ref"]
        ep = a[1]
        # Unix timespec model: value = secs + nanos/1e9 with 0 <= nanos < 1e9, secs: i64
        assert ep["secs"][0] == bv(0, 64)[0]
        neg = app("bvslt", "bool", st["secs"], bv(0, 64))
        okv = _dur(st["secs"], st["nanos"])
        nz = NOT(eq(st["nanos"], bv(0, 32)))
        ns = app("bvneg", ("bv", 64), st["secs"])
        errv = _dur(ite(nz, app("bvsub", ("bv", 64), ns, bv(1, 64)), ns),
                    ite(nz, app("bvsub", ("bv", 32), bv(NS, 32), st["nanos"]), bv(0, 32)))
        dz = _dur(bv(0, 64), bv(0, 32))
        return [(tt(), {"disc": ite(neg, bv(1, 64), bv(0, 64)),
                        "variants": {"Ok": [ite(neg, dz, okv)], "Err": [{"dur": ite(neg, errv, dz)}]}})]

    def ste_duration(a, p, c):
        return [(tt(), a[0]["ref"]["dur"])]

    def _opt(some, val):
        return {"disc": ite(some, bv(1, 64), bv(0, 64)), "variants": {"Some": [val]}}

    def st_checked_add(a, p, c):
        st, d = a[0]["ref"], a[1]
        fits = app("bvsge", "bool", d["secs"], bv(0, 64))  # u64 -> i64 conversion
        s = app("bvadd", ("bv", 65), sext(st["secs"], 65), zext(d["secs"], 65))
        n = app("bvadd", ("bv", 32), st["nanos"], d["nanos"])
        carry = app("bvuge", "bool", n, bv(NS, 32))
        s2 = ite(carry, app("bvadd", ("bv", 65), s, bv(1, 65)), s)
        n2 = ite(carry, app("bvsub", ("bv", 32), n, bv(NS, 32)), n)
        inr = AND(app("bvsle", "bool", s2, sext(bv((1 << 63) - 1, 64), 65)),
                  app("bvsge", "bool", s2, sext(bv(1 << 63, 64), 65)))
        return [(tt(), _opt(AND(fits, inr), {"secs": extract(s2, 63, 0), "nanos": n2}))]

    def st_checked_sub(a, p, c):
        st, d = a[0]["ref"], a[1]
        fits = app("bvsge", "bool", d["secs"], bv(0, 64))
        s = app("bvsub", ("bv", 65), sext(st["secs"], 65), zext(d["secs"], 65))
        borrow = app("bvult", "bool", st["nanos"], d["nanos"])
        n2 = ite(borrow, app("bvsub", ("bv", 32), app("bvadd", ("bv", 32), st["nanos"], bv(NS, 32)), d["nanos"]),
                 app("bvsub", ("bv", 32), st["nanos"], d["nanos"]))
        s2 = ite(borrow, app("bvsub", ("bv", 65), s, bv(1, 65)), s)
        inr = AND(app("bvsle", "bool", s2, sext(bv((1 << 63) - 1, 64), 65)),
                  app("bvsge", "bool", s2, sext(bv(1 << 63, 64), 65)))
        return [(tt(), _opt(AND(fits, inr), {"secs": extract(s2, 63, 0), "nanos": n2}))]

    def opt_unwrap_or(a, p, c):
        o, d = a
        some = eq(o["disc"], bv(1, 64))
        return [(tt(), ite(some, o["variants"]["Some"][0], d))]

    def dur_as_nanos(a, p, c):
        d = a[0]["ref"]
        m = app("bvmul", ("bv", 128), zext(d["secs"], 128), bv(NS, 128))
        return [(tt(), app("bvadd", ("bv", 128), m, zext(d["nanos"], 128)))]

    def i_div_euclid(a, p, c):
        x, y = a
        w = width(x)
        mn = bv(1 << (w - 1), w)
        p.append((AND(c, eq(y, bv(0, w))), "div_euclid: attempt to divide by zero"))
        p.append((AND(c, eq(x, mn), eq(y, bv((1 << w) - 1, w))), "div_euclid: attempt to divide with overflow"))
        q = app("bvsdiv", ("bv", w), x, y)
        r = app("bvsrem", ("bv", w), x, y)
        rneg = app("bvslt", "bool", r, bv(0, w))
        ypos = app("bvsgt", "bool", y, bv(0, w))
        adj = ite(ypos, app("bvsub", ("bv", w), q, bv(1, w)), app("bvadd", ("bv", w), q, bv(1, w)))
        return [(tt(), ite(rneg, adj, q))]

    def i_max(a, p, c):
        x, y = a
        return [(tt(), ite(app("bvsgt", "bool", x, y), x, y))]

    def i_min(a, p, c):
        x, y = a
        return [(tt(), ite(app("bvslt", "bool", x, y), x, y))]

    def u_max(a, p, c):
        x, y = a
        return [(tt(), ite(app("bvugt", "bool", x, y), x, y))]

    def u_min(a, p, c):
        x, y = a
        return [(tt(), ite(app("bvult", "bool", x, y), x, y))]

    epoch = {"secs": bv(0, 64), "nanos": bv(0, 32)}
    return {
        "fns": {
            "core::num::<impl u64>::saturating_add": sat_add,
            "core::num::<impl u64>::saturating_sub": sat_sub,
            "core::num::<impl u64>::saturating_mul": sat_mul,
            "Duration::as_secs": dur_as_secs,
            "Duration::subsec_nanos": dur_subsec,
            "Duration::new": dur_new,
            "SystemTime::duration_since": st_duration_since,
            "SystemTimeError::duration": ste_duration,
            "SystemTime::checked_add": st_checked_add,
            "SystemTime::checked_sub": st_checked_sub,
            "Option::<SystemTime>::unwrap_or": opt_unwrap_or,
            "Duration::as_nanos": dur_as_nanos,
            "core::num::<impl i128>::div_euclid": i_div_euclid,
            "core::num::<impl i64>::div_euclid": i_div_euclid,
            "<i128 as Ord>::max": i_max,
            "<i128 as Ord>::min": i_min,
            "<i64 as Ord>::max": i_max,
            "<i64 as Ord>::min": i_min,
            "<u64 as Ord>::max": u_max,
            "<u64 as Ord>::min": u_min,
            "<u128 as Ord>::max": u_max,
            "<u128 as Ord>::min": u_min,
        },
        "consts": {"web_time::UNIX_EPOCH": epoch},
    }


SUMMARY_DOC = [
    "summary: u64::saturating_add/sub/mul = clamp of the exact result",
    "summary: Duration = (secs: u64, nanos: u32 < 1e9); Duration::new carries nanos >= 1e9 into secs and panics on overflow",
    "summary: SystemTime = Unix timespec (secs: i64, nanos: u32 < 1e9); duration_since(UNIX_EPOCH) is Ok(d) for secs >= 0 and Err(epoch - t) otherwise; checked_add/checked_sub as in std's Timespec (None when the i64 seconds overflow)",
    "summary: Option::unwrap_or",
    "summary: <T as TryFrom<S>>::try_from on integers = Ok(v) iff v fits T",
    "summary: Duration::as_nanos = secs * 1e9 + nanos as u128; iN::div_euclid = floor-style Euclidean quotient (panics on /0 and MIN/-1); Ord::max/min on integers",
    "summary: promoted constants &UNIX_EPOCH = (0, 0)",
]


# ------------------------------------------------------------------ solving
def merge(results):
    """[(cond, val)] -> single value by ite chain (conds are exhaustive & exclusive)."""
    results = [r for r in results if r[1] is not None]
    if not results:
        raise Unknown("function has no returning path")
    v = results[-1][1]
    for c, x in reversed(results[:-1]):
        v = ite(c, x, v)
    return v


def solve(decls, assertions, solver_cmd, timeout):
    txt = "(set-logic ALL)\n" + "\n".join(decls) + "\n" + "\n".join("(assert %s)" % a[0] for a in assertions) + \
          "\n(check-sat)\n(get-model)\n"
    t0 = time.time()
    try:
        p = subprocess.run(solver_cmd, input=txt, capture_output=True, text=True, timeout=timeout)
    except subprocess.TimeoutExpired:
        return "timeout", "", time.time() - t0
    out = p.stdout + p.stderr
    first = out.strip().split("\n")[0].strip() if out.strip() else ""
    if "(error" in out and first not in ("unsat",):
        return "error", out, time.time() - t0
    if first == "unsat" and "(error" in out.replace('(error "line', "(xerror").split("(get-model")[0] and False:
        return "error", out, time.time() - t0
    if first in ("sat", "unsat", "unknown"):
        # an (error ...) line after `unsat` is only get-model complaining; before it, it is fatal
        return first, out, time.time() - t0
    return "error", out, time.time() - t0


SOLVERS = [
    ("cvc5 --solve-bv-as-int=sum", ["cvc5", "--lang", "smt2", "--produce-models", "--solve-bv-as-int=sum"]),
    ("z3 4.8.12", ["/usr/bin/z3", "-in", "-smt2"]),
    ("cvc5 --solve-bv-as-int=iand", ["cvc5", "--lang", "smt2", "--produce-models", "--solve-bv-as-int=iand"]),
]


def discharge(name, decls, negated_goal, assumptions_terms, cap_s):
    """Primary configuration must answer unsat; the other configurations run
    concurrently under a shorter cap and must not contradict it (sat anywhere
    => failed; sat+unsat => inconclusive)."""
    import concurrent.futures as cf
    def one(lc):
        label, cmd = lc
        cap = cap_s if label.startswith("cvc5 --solve-bv-as-int=sum") else min(cap_s, 25)
        v, out, dt = solve(decls, assumptions_terms + [negated_goal], cmd, cap)
        return label, v, out, dt
    with cf.ThreadPoolExecutor(max_workers=len(SOLVERS)) as ex:
        rs = list(ex.map(one, SOLVERS))
    verdicts = [{"solver": l, "verdict": v, "time_s": round(dt, 2)} for l, v, out, dt in rs]
    model = None
    for l, v, out, dt in rs:
        if v == "sat" and model is None:
            model = out
        if v == "error":
            return {"status": "inconclusive", "reason": "%s: solver error: %s" % (l, out[:300]), "solvers": verdicts}
    vs = [x["verdict"] for x in verdicts]
    if "sat" in vs and "unsat" in vs:
        return {"status": "inconclusive", "reason": "solver disagreement", "solvers": verdicts}
    if "sat" in vs:
        return {"status": "failed", "solvers": verdicts, "model": model}
    if vs[0] == "unsat":
        return {"status": "success", "solvers": verdicts, "second_opinion": any(v == "unsat" for v in vs[1:])}
    return {"status": "inconclusive", "reason": "primary solver configuration did not decide: %s" % vs, "solvers": verdicts}


# ------------------------------------------------------ C17: timestamp kernel
EPOCH_TS = 116444736000000000


def timestamp_obligations(ex, fns):
    f_from = find_fn(fns, "timestamp_from_system_time")
    f_to = find_fn(fns, "system_time_from_timestamp")
    obs = []
    decl_t = ["(declare-const t (_ BitVec 64))"]
    decl_st = ["(declare-const s (_ BitVec 64))", "(declare-const n (_ BitVec 32))"]
    t = ("t", ("bv", 64))
    st = {"secs": ("s", ("bv", 64)), "nanos": ("n", ("bv", 32))}
    nvalid = app("bvult", "bool", st["nanos"], bv(NS, 32))

    # to(t)
    r_to, p_to = ex.call(f_to, [t])
    to_v = merge(r_to)
    # from(st)
    r_from, p_from = ex.call(f_from, [st])
    from_v = merge(r_from)
    # from(to(t))
    r_rt, p_rt = ex.call(f_from, [to_v])
    rt_v = merge(r_rt)

    obs.append(dict(name="ts_no_panic_to", what="system_time_from_timestamp(t) never panics, all u64 t",
                    decls=decl_t, assume=[], neg=OR(*[c for c, _ in p_to]) if p_to else ff(),
                    panics=[m for _, m in p_to]))
    obs.append(dict(name="ts_no_panic_from", what="timestamp_from_system_time(st) never panics, all (i64 secs, nanos<1e9)",
                    decls=decl_st, assume=[nvalid], neg=OR(*[c for c, _ in p_from]) if p_from else ff(),
                    panics=[m for _, m in p_from]))
    obs.append(dict(name="ts_to_is_normalised", what="system_time_from_timestamp(t) yields nanos < 1e9 (model invariant), all t",
                    decls=decl_t, assume=[], neg=NOT(app("bvult", "bool", to_v["nanos"], bv(NS, 32)))))
    obs.append(dict(name="ts_roundtrip", what="timestamp_from_system_time(system_time_from_timestamp(t)) == t for all u64 t",
                    decls=decl_t, assume=[], neg=NOT(eq(rt_v, t))))
    # specification of from(): floor toward the Unix epoch at 100ns resolution, saturating
    S = sext(st["secs"], 128)
    N = zext(st["nanos"], 128)
    c1e7 = bv(10_000_000, 128)
    ticks_pos = app("bvadd", ("bv", 128), app("bvmul", ("bv", 128), S, c1e7), app("bvudiv", ("bv", 128), N, bv(100, 128)))
    # before the epoch: distance d = -(secs*1e9 + nanos) ns > 0, ticks = floor(d/100)
    dns = app("bvneg", ("bv", 128), app("bvadd", ("bv", 128), app("bvmul", ("bv", 128), S, bv(NS, 128)), N))
    ticks_neg = app("bvudiv", ("bv", 128), dns, bv(100, 128))
    E = bv(EPOCH_TS, 128)
    mx = bv((1 << 64) - 1, 128)
    up = app("bvadd", ("bv", 128), E, ticks_pos)
    want_pos = ite(app("bvugt", "bool", up, mx), mx, up)
    want_neg = ite(app("bvugt", "bool", ticks_neg, E), bv(0, 128), app("bvsub", ("bv", 128), E, ticks_neg))
    isneg = app("bvslt", "bool", st["secs"], bv(0, 64))
    want = ite(isneg, want_neg, want_pos)
    obs.append(dict(name="ts_from_spec",
                    what="timestamp_from_system_time == floor toward the Unix epoch at 100 ns resolution, saturating at 0 and u64::MAX, for all (i64 secs, nanos<1e9)",
                    decls=decl_st, assume=[nvalid], neg=NOT(eq(zext(from_v, 128), want))))
    # spec of to(): exact at 100 ns resolution (64-bit formulation)
    E64 = bv(EPOCH_TS, 64)
    ge = app("bvuge", "bool", t, E64)
    c7 = bv(10_000_000, 64)
    n100 = zext(app("bvudiv", ("bv", 32), to_v["nanos"], bv(100, 32)), 64)
    aligned = eq(app("bvurem", ("bv", 32), to_v["nanos"], bv(100, 32)), bv(0, 32))
    pos_ok = AND(app("bvsge", "bool", to_v["secs"], bv(0, 64)),
                 eq(app("bvadd", ("bv", 64), app("bvmul", ("bv", 64), to_v["secs"], c7), n100),
                    app("bvsub", ("bv", 64), t, E64)))
    neg_ok = AND(app("bvslt", "bool", to_v["secs"], bv(0, 64)),
                 eq(app("bvsub", ("bv", 64), app("bvmul", ("bv", 64), app("bvneg", ("bv", 64), to_v["secs"]), c7), n100),
                    app("bvsub", ("bv", 64), E64, t)))
    obs.append(dict(name="ts_to_aligned", what="system_time_from_timestamp(t) has nanos a multiple of 100 (100 ns resolution) for all u64 t; together with ts_roundtrip and ts_from_spec this pins it to exactly (t - EPOCH_TS) * 100 ns",
                    decls=decl_t, assume=[], neg=NOT(aligned)))
    if os.environ.get("VERIF_SMT_EXTRA"):
        obs.append(dict(name="ts_to_spec", what="exactness of system_time_from_timestamp in one query (not registered: no solver configuration decides it within the cap)",
                        decls=decl_t, assume=[], neg=NOT(AND(aligned, ite(ge, pos_ok, neg_ok)))))
    return obs


def validate_vectors(ex, fns):
    """Serval-style translator validation: the repo's own unit-test vectors are
    pushed through the encoding as concrete queries."""
    f_from = find_fn(fns, "timestamp_from_system_time")
    f_to = find_fn(fns, "system_time_from_timestamp")
    f_d2t = find_fn(fns, "duration_to_timestamp_delta")
    f_t2d = find_fn(fns, "timestamp_delta_to_duration")
    vec = []
    # (secs, nanos) relative to the Unix epoch -> timestamp  (tests in timestamp.rs)
    for (s, n, ts) in [(0, 0, 116444736000000000), (1, 0, 116444736010000000), (-1, 0, 116444736000000000 - 10000000),
                       (1500000000, 123456700, 116444736000000000 + 15000000001234567)]:
        r, _ = ex.call(f_from, [{"secs": bv(s, 64), "nanos": bv(n, 32)}])
        vec.append(("from(%d,%d)" % (s, n), merge(r), bv(ts, 64)))
    r, _ = ex.call(f_d2t, [{"secs": bv((1 << 64) - 1, 64), "nanos": bv(999999999, 32)}])
    vec.append(("duration_to_timestamp_delta(MAX)", merge(r), bv((1 << 64) - 1, 64)))
    r, _ = ex.call(f_t2d, [bv((1 << 64) - 1, 64)])
    d = merge(r)
    vec.append(("timestamp_delta_to_duration(MAX).secs", d["secs"], bv(((1 << 64) - 1) // 10_000_000, 64)))
    vec.append(("timestamp_delta_to_duration(MAX).nanos", d["nanos"], bv((((1 << 64) - 1) % 10_000_000) * 100, 32)))
    r, _ = ex.call(f_to, [bv(0, 64)])
    d = merge(r)
    vec.append(("to(0).secs", d["secs"], bv(-11644473600, 64)))
    bad = []
    for name, got, want in vec:
        v, out, _ = solve([], [NOT(eq(got, want))], SOLVERS[0][1], 30)
        if v != "unsat":
            bad.append("%s: %s" % (name, v))
    return len(vec), bad


def run_obligations(prop, names, tier):
    out = []
    t0 = time.time()
    try:
        mir = dump_mir()
        fns, consts = parse_mir(mir)
        ex = Exec(fns, consts, std_summaries())
        obs = []
        if "timestamp" in names:
            nvec, bad = validate_vectors(ex, fns)
            if bad:
                return [{"name": "translator_validation", "status": "inconclusive",
                         "reason": "encoding disagrees with the repo's own test vectors: %s" % bad}]
            out.append({"name": "translator_validation", "status": "success",
                        "what": "%d concrete vectors from src/internal/timestamp.rs tests evaluate to the expected values in the encoding" % nvec,
                        "time_s": round(time.time() - t0, 2), "solvers": [], "functions": []})
            obs += timestamp_obligations(ex, fns)
    except Unknown as e:
        return [{"name": "mir_encoding", "status": "inconclusive", "reason": "MIR construct not handled: %s" % e}]
    except subprocess.TimeoutExpired:
        return [{"name": "mir_dump", "status": "inconclusive", "reason": "MIR dump timed out"}]
    cap = 120 if tier == "quick" else 600
    import concurrent.futures as cf
    with cf.ThreadPoolExecutor(max_workers=4) as pool:
        rs = list(pool.map(lambda o: discharge(o["name"], o["decls"], o["neg"], o["assume"], cap), obs))
    for o, r in zip(obs, rs):
        r.update({"name": o["name"], "what": o["what"], "functions": sorted(ex.encoded),
                  "assumptions": SUMMARY_DOC + sorted("std call summarised: " + s for s in ex.used_summaries),
                  "time_s": round(sum(s["time_s"] for s in r.get("solvers", [])), 2),
                  "panic_sites": o.get("panics")})
        out.append(r)
    return out


def replay(prop, name, model):
    """Counterexample of an SMT obligation: extract (s, n) or t and run the real
    functions natively through a tiny test crate."""
    vals = dict(re.findall(r"\(define-fun (\w+) \(\) \(_ BitVec \d+\)\s+#[xb]([0-9a-f]+)\)", model or ""))
    conv = {}
    for k, v in vals.items():
        m = re.search(r"\(define-fun %s \(\) \(_ BitVec (\d+)\)\s+#(x|b)" % k, model)
        conv[k] = int(v, 16 if m.group(2) == "x" else 2)
    rp_dir = os.path.join(os.environ.get("VERIF_EVIDENCE_DIR") or os.path.join(VERIF, "evidence"), "replay")
    os.makedirs(rp_dir, exist_ok=True)
    path = os.path.join(rp_dir, "%s-smt-%s.json" % (prop, name))
    rp = {"kind": "smt", "property": prop, "obligation": name, "values": conv}
    ok, detail = native_timestamp_check(conv)
    rp["native"] = detail
    json.dump(rp, open(path, "w"), indent=1)
    return ok, path


def native_timestamp_check(vals):
    """Runs the real Timestamp conversion natively on the model's values via the
    public API (set_created_time / entry().created()) and compares with the spec."""
    drv = os.path.join(VERIF, "replay")
    if not os.path.exists(os.path.join(drv, "Cargo.toml")):
        return False, "replay driver missing"
    tdir = os.path.join(VERIF, "build", "replay-target")
    if REPO != "/repo":
        # campaigns check a scratch copy of the repository: the driver must be built against that copy
        import shutil, tempfile
        tmp = tempfile.mkdtemp(prefix="verif-replay-", dir=os.environ.get("VERIF_TMP", "/tmp"))
        shutil.copytree(drv, os.path.join(tmp, "replay"), ignore=shutil.ignore_patterns("target"))
        drv = os.path.join(tmp, "replay")
        ct = open(os.path.join(drv, "Cargo.toml")).read().replace('path = "/repo"', 'path = "%s"' % REPO)
        open(os.path.join(drv, "Cargo.toml"), "w").write(ct)
        tdir = os.path.join(tmp, "target")
    args = []
    if "t" in vals:
        args = ["ts-to", str(vals["t"])]
    else:
        s = vals.get("s", 0)
        if s >= 1 << 63:
            s -= 1 << 64
        args = ["ts-from", str(s), str(vals.get("n", 0))]
    env = dict(os.environ)
    env["CARGO_NET_OFFLINE"] = "true"
    p = subprocess.run(["cargo", "run", "--offline", "--quiet", "--manifest-path", os.path.join(drv, "Cargo.toml"),
                        "--target-dir", tdir, "--"] + args,
                       capture_output=True, text=True, env=env, timeout=900)
    if REPO != "/repo":
        shutil.rmtree(tmp, ignore_errors=True)
    return p.returncode == 1, (p.stdout + p.stderr)[-2000:]


def replay_file(rp):
    ok, detail = native_timestamp_check(rp["values"])
    print(detail)
    if ok:
        print("VIOLATION property=%s replay=(smt %s)" % (rp["property"], rp["obligation"]))
        return 1
    return 0
